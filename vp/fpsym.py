"""E2: a small symbolic interpreter that turns the AST of a straight-line numeric Python
function (read from the real source on every run) into z3 floating-point terms.

Supported subset (everything db_interface._validate_measurement uses): if/elif/else, return,
assignment, `for x in <concrete list>`, list comprehensions over concrete ranges, comparisons
(incl. chains), and/or/not, + - * /, math.floor / math.ceil / round(x) / round(c, n) / float(),
constants.  Python floats are IEEE binary64 with round-to-nearest-even; math.floor/ceil/round
return ints, represented as integral binary64 values (exact below 2**53, the stated range).
Anything else raises Unsupported -> the cell reports 'inconclusive', never success.
"""
import ast
import inspect
import math
import textwrap

import z3

F64 = z3.Float64()
RNE = z3.RNE()


class Unsupported(Exception):
    pass


def is_sym(v):
    return isinstance(v, z3.ExprRef)


def fp(v):
    if is_sym(v):
        return v
    if isinstance(v, bool):
        raise Unsupported("bool used as number")
    return z3.FPVal(float(v), F64)


class Interp:
    def __init__(self, fn):
        src = textwrap.dedent(inspect.getsource(fn))
        self.fn_ast = ast.parse(src).body[0]
        self.globals = fn.__globals__

    # ---- expressions
    def ev(self, node, env):
        if isinstance(node, ast.Constant):
            return node.value
        if isinstance(node, ast.Name):
            if node.id in env:
                return env[node.id]
            if node.id in self.globals:
                return self.globals[node.id]
            if node.id in ("range", "round", "float", "int", "len", "abs", "math"):
                return {"range": range, "round": round, "float": float, "int": int, "len": len, "abs": abs, "math": math}[node.id]
            raise Unsupported("name " + node.id)
        if isinstance(node, ast.BinOp):
            a, b = self.ev(node.left, env), self.ev(node.right, env)
            if not is_sym(a) and not is_sym(b):
                return {ast.Add: lambda: a + b, ast.Sub: lambda: a - b, ast.Mult: lambda: a * b, ast.Div: lambda: a / b}[type(node.op)]()
            a, b = fp(a), fp(b)
            if isinstance(node.op, ast.Mult):
                return z3.fpMul(RNE, a, b)
            if isinstance(node.op, ast.Add):
                return z3.fpAdd(RNE, a, b)
            if isinstance(node.op, ast.Sub):
                return z3.fpSub(RNE, a, b)
            if isinstance(node.op, ast.Div):
                return z3.fpDiv(RNE, a, b)
            raise Unsupported("binop")
        if isinstance(node, ast.UnaryOp) and isinstance(node.op, ast.Not):
            v = self.ev(node.operand, env)
            return z3.Not(v) if is_sym(v) else (not v)
        if isinstance(node, ast.UnaryOp) and isinstance(node.op, ast.USub):
            v = self.ev(node.operand, env)
            return z3.fpNeg(v) if is_sym(v) else -v
        if isinstance(node, ast.BoolOp):
            vals = [self.ev(v, env) for v in node.values]
            if not any(is_sym(v) for v in vals):
                return all(vals) if isinstance(node.op, ast.And) else any(vals)
            vals = [v if is_sym(v) else z3.BoolVal(bool(v)) for v in vals]
            return z3.And(*vals) if isinstance(node.op, ast.And) else z3.Or(*vals)
        if isinstance(node, ast.Compare):
            left = self.ev(node.left, env)
            parts = []
            for op, rnode in zip(node.ops, node.comparators):
                right = self.ev(rnode, env)
                parts.append(self.cmp(op, left, right))
                left = right
            if not any(is_sym(p) for p in parts):
                return all(parts)
            parts = [p if is_sym(p) else z3.BoolVal(bool(p)) for p in parts]
            return z3.And(*parts) if len(parts) > 1 else parts[0]
        if isinstance(node, ast.Call):
            return self.call(node, env)
        if isinstance(node, ast.ListComp):
            if len(node.generators) != 1 or node.generators[0].ifs:
                raise Unsupported("listcomp")
            g = node.generators[0]
            it = self.ev(g.iter, env)
            out = []
            for x in it:
                e2 = dict(env)
                e2[g.target.id] = x
                out.append(self.ev(node.elt, e2))
            return out
        if isinstance(node, ast.Attribute):
            base = self.ev(node.value, env)
            return getattr(base, node.attr)
        if isinstance(node, (ast.Tuple, ast.List)):
            return [self.ev(e, env) for e in node.elts]
        raise Unsupported(type(node).__name__)

    def cmp(self, op, a, b):
        if isinstance(op, (ast.Is, ast.IsNot)):
            r = (a is b) if not (is_sym(a) or is_sym(b)) else False
            return r if isinstance(op, ast.Is) else not r
        if not is_sym(a) and not is_sym(b):
            return {ast.Eq: a == b, ast.NotEq: a != b, ast.Lt: a < b, ast.LtE: a <= b, ast.Gt: a > b, ast.GtE: a >= b}[type(op)]
        a, b = fp(a), fp(b)
        return {ast.Eq: z3.fpEQ, ast.NotEq: z3.fpNEQ, ast.Lt: z3.fpLT, ast.LtE: z3.fpLEQ, ast.Gt: z3.fpGT, ast.GtE: z3.fpGEQ}[type(op)](a, b)

    def call(self, node, env):
        f = self.ev(node.func, env)
        args = [self.ev(a, env) for a in node.args]
        if not any(is_sym(a) for a in args):
            return f(*args)
        if f is math.floor:
            return z3.fpRoundToIntegral(z3.RTN(), args[0])
        if f is math.ceil:
            return z3.fpRoundToIntegral(z3.RTP(), args[0])
        if f is round and len(args) == 1:
            return z3.fpRoundToIntegral(RNE, args[0])     # Python rounds half to even
        if f is float:
            return args[0]
        raise Unsupported("call %s on symbolic value" % getattr(f, "__name__", f))

    # ---- statements: returns list of (path condition, return value)
    def run(self, arg_values):
        env = {}
        for a, v in zip(self.fn_ast.args.args, arg_values):
            env[a.arg] = v
        rets = []
        live = self.block(self.fn_ast.body, env, z3.BoolVal(True), rets)
        for env2, pc in live:
            rets.append((pc, None))
        return rets

    def block(self, stmts, env, pc, rets):
        states = [(env, pc)]
        for st in stmts:
            nxt = []
            for env, pc in states:
                nxt += self.stmt(st, env, pc, rets)
            states = nxt
            if not states:
                break
        return states

    def stmt(self, st, env, pc, rets):
        if isinstance(st, ast.Expr):
            if isinstance(st.value, ast.Constant):
                return [(env, pc)]     # docstring
            raise Unsupported("expression statement")
        if isinstance(st, ast.Return):
            rets.append((pc, self.ev(st.value, env) if st.value is not None else None))
            return []
        if isinstance(st, ast.Assign):
            if len(st.targets) != 1 or not isinstance(st.targets[0], ast.Name):
                raise Unsupported("assignment target")
            e2 = dict(env)
            e2[st.targets[0].id] = self.ev(st.value, env)
            return [(e2, pc)]
        if isinstance(st, ast.If):
            c = self.ev(st.test, env)
            if not is_sym(c):
                return self.block(st.body if c else st.orelse, env, pc, rets)
            out = self.block(st.body, dict(env), z3.And(pc, c), rets)
            out += self.block(st.orelse, dict(env), z3.And(pc, z3.Not(c)), rets)
            return out
        if isinstance(st, ast.For):
            it = self.ev(st.iter, env)
            if is_sym(it) or st.orelse or not isinstance(st.target, ast.Name):
                raise Unsupported("for")
            states = [(env, pc)]
            for x in it:
                nxt = []
                for env2, pc2 in states:
                    e3 = dict(env2)
                    e3[st.target.id] = x
                    nxt += self.block(st.body, e3, pc2, rets)
                states = nxt
            return states
        raise Unsupported(type(st).__name__)


def solve(constraints, timeout_s, var):
    """-> ('unsat', None) | ('sat', float value of var) | ('unknown', None); also returns seconds"""
    import time
    s = z3.Solver()
    s.set("timeout", int(timeout_s * 1000))
    for c in constraints:
        s.add(c)
    t = time.time()
    r = s.check()
    dt = time.time() - t
    if str(r) == "sat":
        m = s.model()
        v = m.eval(var, model_completion=True)
        # exact value via IEEE bit pattern
        bv = m.eval(z3.fpToIEEEBV(var), model_completion=True).as_long()
        import struct
        val = struct.unpack("<d", struct.pack("<Q", bv))[0]
        return "sat", val, dt
    return str(r), None, dt
