"""Small helpers for writing harnesses whose structure is decided by the solver."""


def pick(i, n):
    """Turn a (symbolic) int with 0 <= i < n into a concrete int by binary forking.

    Each comparison is a branch on the symbolic value, so CrossHair/z3 decides which
    outcomes are feasible; on every path the result is an ordinary Python int.
    """
    lo, hi = 0, n
    while hi - lo > 1:
        mid = (lo + hi) // 2
        if i >= mid:
            lo = mid
        else:
            hi = mid
    return lo


def canon(slots):
    """Equality pattern (restricted-growth string) of a list of symbolic ints.

    Forks on pairwise equality only; the result is a concrete list of class ids, e.g.
    [0, 1, 0, 2].  Every concrete assignment of the slots with the same coincidence
    structure is covered by the same path.
    """
    reps = []  # representatives (symbolic values)
    out = []
    for s in slots:
        cls = None
        for k, r in enumerate(reps):
            if s == r:
                cls = k
                break
        if cls is None:
            reps.append(s)
            cls = len(reps) - 1
        out.append(cls)
    return out


try:
    from crosshair.tracers import NoTracing as _XNoTracing, is_tracing as _is_tracing
except Exception:  # plain interpreter without crosshair
    _XNoTracing = None


class NoTracing:
    """Run a block natively when (and only when) a CrossHair tracer is active.

    Only used around code whose inputs are concrete on the current path; semantics are
    those of the ordinary interpreter.
    """

    def __enter__(self):
        self._ctx = None
        if _XNoTracing is not None and _is_tracing():
            self._ctx = _XNoTracing()
            self._ctx.__enter__()
        return self

    def __exit__(self, *a):
        if self._ctx is not None:
            return self._ctx.__exit__(*a)
        return False


def _deep_concrete(x, depth=0):
    t = type(x)
    if t in (int, bool, float, str, type(None)):
        return True
    if t in (list, tuple, set, frozenset):
        return all(_deep_concrete(y, depth + 1) for y in x)
    if t is dict:
        return all(_deep_concrete(k, depth + 1) and _deep_concrete(v, depth + 1) for k, v in x.items())
    return False


def native(fn, *args):
    """Call fn(*args) natively (outside the tracer) after checking, natively, that every
    argument is a genuinely concrete builtin value - a symbolic proxy can never leak in."""
    with NoTracing():
        if not _deep_concrete(args):
            raise TypeError("native(): symbolic value passed to a native segment: %r" % (args,))
        return fn(*args)


def rgs_patterns(n):
    """All restricted-growth strings of length n (set partitions), in a fixed order."""
    out = []

    def rec(prefix, mx):
        if len(prefix) == n:
            out.append(tuple(prefix))
            return
        for c in range(mx + 2):
            rec(prefix + [c], max(mx, c))
    rec([], -1)
    return out


_RGS = {}


def pattern_index(pat):
    n = len(pat)
    if n not in _RGS:
        _RGS[n] = {p: i for i, p in enumerate(rgs_patterns(n))}
    return _RGS[n][tuple(pat)]
