"""Builders for synthetic OSACA objects used by the harnesses (no YAML, no pyparsing).

Everything here constructs *real* OSACA classes (InstructionForm, RegisterOperand,
MemoryOperand, MachineModel, ArchSemantics, KernelDG); only the way they are filled
differs from the CLI path (directly from harness parameters instead of from files).
"""
import copy
from collections import defaultdict

import networkx as nx

from osaca.parser import ParserAArch64, ParserX86ATT
from osaca.parser.flag import FlagOperand
from osaca.parser.immediate import ImmediateOperand
from osaca.parser.instruction_form import InstructionForm
from osaca.parser.memory import MemoryOperand
from osaca.parser.register import RegisterOperand
from osaca.semantics import INSTR_FLAGS, ArchSemantics, KernelDG, MachineModel

from vp.symx import NoTracing

PX = ParserX86ATT()
PA = ParserAArch64()


def _warm_networkx():
    """networkx compiles its argmap decorators with exec() on first call; that must
    happen outside CrossHair's tracer."""
    g = nx.DiGraph()
    g.add_edge(1, 2, latency=1)
    g.add_edge(2, 3, latency=1)
    g.add_edge(1.1, 1, latency=1)
    nx.algorithms.dag.is_directed_acyclic_graph(g)
    nx.algorithms.dag.dag_longest_path(g, weight="latency")
    list(nx.algorithms.simple_paths.all_simple_paths(g, 1, 3))
    list(nx.utils.pairwise([1, 2, 3]))
    list(nx.topological_sort(g))
    copy.deepcopy(g)


_warm_networkx()


class NativeParser:
    """Delegates the alias predicates to the real parser, natively (NoTracing).

    Used only where the register operands are concrete on the current path (names are
    attached after the equality pattern has been decided), so native execution equals
    traced execution; it merely avoids tracing regex/str code thousands of times.
    """

    def __init__(self, real):
        self._real = real

    def is_reg_dependend_of(self, a, b):
        with NoTracing():
            return self._real.is_reg_dependend_of(a, b)

    def is_flag_dependend_of(self, a, b):
        with NoTracing():
            return self._real.is_flag_dependend_of(a, b)

    def __getattr__(self, k):
        return getattr(self._real, k)


def reg(isa, name):
    """Concrete register operand from a short spec like 'rax', 'xmm1', 'x3', 'w3', 'v2'."""
    if isa == "x86":
        return RegisterOperand(name=name)
    return RegisterOperand(prefix=name[0], name=name[1:])


def iform(ln, src=(), dst=(), src_dst=(), lat=1, wo=None, tp=1.0, flags=(), mnemonic="op", operands=None,
          pressure=None, uops=None, line=None):
    f = InstructionForm(mnemonic=mnemonic, operands=list(operands) if operands is not None else list(src) + list(src_dst) + list(dst),
                        line=line or "%s #%d" % (mnemonic, ln), line_number=ln,
                        semantic_operands={"source": list(src), "destination": list(dst), "src_dst": list(src_dst)})
    f.latency = lat
    f.latency_wo_load = lat if wo is None else wo
    f.throughput = tp
    f.flags = list(flags)
    f.latency_cp = 0
    f.latency_lcd = 0
    f.port_pressure = pressure if pressure is not None else []
    f.port_uops = uops if uops is not None else []
    return f


def mk_model(isa, ports=(), **data):
    m = MachineModel(isa=isa)
    m._data["ports"] = list(ports)
    m._data["instruction_forms_dict"] = defaultdict(list)
    m._data["instruction_forms"] = []
    m._data["load_throughput"] = []
    m._data["store_throughput"] = []
    m._data["load_throughput_default"] = []
    m._data["store_throughput_default"] = []
    m._data.update(data)
    return m


def add_entry(model, name, operands, tp=None, lat=None, uops=None, **kw):
    e = InstructionForm(mnemonic=name.upper(), operands=list(operands), throughput=tp, latency=lat,
                        port_pressure=uops, hidden_operands=kw.pop("hidden_operands", []),
                        operation=kw.pop("operation", None),
                        breaks_dependency_on_equal_operands=kw.pop("breaks", False))
    model._data["instruction_forms"].append(e)
    model._data["instruction_forms_dict"][name.upper()].append(e)
    return e


def mk_sem(model, isa_model=None):
    """ArchSemantics over in-memory models (constructor bypassed: it only loads YAML)."""
    s = ArchSemantics.__new__(ArchSemantics)
    isa = model.get_ISA().lower()
    s._isa = isa
    s._isa_model = isa_model if isa_model is not None else mk_model(isa)
    s._parser = PX if isa == "x86" else PA
    s._machine_model = model
    return s


class DG(KernelDG):
    """KernelDG whose constructor does not run the LCD search (so that create_DG /
    critical path can be observed alone); all methods are the real ones."""

    def __init__(self, kernel, parser, model=None, sem=None, flag_dependencies=False, lcd=False, timeout=10):
        self.timed_out = False
        self.kernel = kernel
        self.parser = parser
        self.model = model
        self.arch_sem = sem
        self.dg = self.create_DG(self.kernel, flag_dependencies)
        self.loopcarried_deps = self.check_for_loopcarried_dep(self.kernel, timeout, flag_dependencies) if lcd else {}


# ---- reference models (independent of OSACA) ---------------------------------------------------

def ref_longest(n_nodes, edges, sink_w):
    """Longest path value in a DAG given as {(u,v): w} over nodes 0..n_nodes-1 (u<v in a
    topological numbering) plus per-node terminal weight sink_w[v]; returns max over all
    non-empty paths of sum(edge weights) + sink_w[last]."""
    best_to = [0] * n_nodes
    for v in range(n_nodes):
        b = 0
        for u in range(v):
            if (u, v) in edges:
                c = best_to[u] + edges[(u, v)]
                if c > b:
                    b = c
        best_to[v] = b
    tot = None
    for v in range(n_nodes):
        if sink_w[v] is None:
            continue
        c = best_to[v] + sink_w[v]
        if tot is None or c > tot:
            tot = c
    return tot


# ---- register-class kernels (C03, C05, C14) ------------------------------------------------

# families with irregular sub-register spellings (r8/r9: one-digit stem; sil/dil; cl) come first so that
# the small equality patterns already use them
X86_WIDE = ["rax", "r8", "rsi", "r9", "rcx", "r10", "rbx", "rdx", "rdi", "r11", "r12", "r13"]
X86_NARROW = ["eax", "r8b", "sil", "r9w", "cl", "r10d", "bx", "edx", "dil", "r11b", "r12w", "r13d"]
A64_WIDE = ["x1", "x2", "x3", "x4", "x5", "x6", "x7", "x8", "x9", "x10", "x11", "x12"]
A64_NARROW = ["w1", "w2", "w3", "w4", "w5", "w6", "w7", "w8", "w9", "w10", "w11", "w12"]


def class_reg(isa, cls, narrow=False):
    """Register operand for equality class `cls`; `narrow` picks the 32-bit alias."""
    if isa == "x86":
        return reg(isa, (X86_NARROW if narrow else X86_WIDE)[cls])
    return reg(isa, (A64_NARROW if narrow else A64_WIDE)[cls])


def ref_raw(instrs):
    """Reference read-after-write relation.

    instrs: list of (reads, writes) with sets of abstract locations.  Returns the set of
    (i, j, loc) with i < j, j reads loc, i writes loc, and no k in (i, j) writes loc.
    An instruction that both reads and writes loc is a consumer of earlier writes and
    ends the scan (kill) for them.
    """
    out = set()
    for i, (_, wi) in enumerate(instrs):
        for loc in wi:
            for j in range(i + 1, len(instrs)):
                rj, wj = instrs[j]
                if loc in rj:
                    out.add((i, j, loc))
                if loc in wj:
                    break
    return out


def ref_lcd(n, edges2, weight):
    """Reference loop-carried cycles from the RAW edges of the doubled kernel.

    edges2: set of (u, v) over 0..2n-1 (iteration 2 = index + n); weight(u, v) -> latency.
    A cycle is a non-empty member set S (sorted s1<...<sk) with edges s1->s2 ... sk->s1+n.
    Returns {tuple(S): latency}.
    """
    out = {}
    for mask in range(1, 1 << n):
        S = [i for i in range(n) if mask >> i & 1]
        ok = True
        lat = 0
        for a, b in zip(S, S[1:]):
            if (a, b) not in edges2:
                ok = False
                break
            lat = lat + weight(a, b)
        if not ok:
            continue
        if (S[-1], S[0] + n) not in edges2:
            continue
        lat = lat + weight(S[-1], S[0] + n)
        out[tuple(S)] = lat
    return out
