"""Cell scheduler, replay, known-findings handling and evidence writer.

usage: python -m vp.runner <PROPERTY ID> --tier quick|thorough [--cells a,b] [--jobs N]
       python -m vp.runner --replay <file>
exit:  0 property held on everything explored (KNOWN-FINDING lines possible)
       1 VIOLATION property=<id> replay=<path>
       3 harness error (vacuous twin, crashed worker, nothing confirmed)
"""
import argparse
import hashlib
import importlib
import json
import os
import subprocess
import sys
import tempfile
import time
from concurrent.futures import ThreadPoolExecutor

VERIF = os.path.dirname(os.path.dirname(os.path.abspath(__file__)))
PY = sys.executable

HARNESS = {
    "C01": "harness.c01_pressure", "C02": "harness.c02_optimal", "C03": "harness.c03_raw",
    "C04": "harness.c04_cp", "C05": "harness.c05_lcd", "C06": "harness.c06_memdep",
    "C07": "harness.c07_lookup", "C08": "harness.c08_memcompose", "C09": "harness.c09_x86parser",
    "C10": "harness.c10_a64parser", "C11": "harness.c11_selection", "C12": "harness.c12_regdep",
    "C13": "harness.c13_report", "C14": "harness.c14_rotation", "C15": "harness.c15_models",
    "C16": "harness.c16_parallel", "C17": "harness.c17_cache", "C18": "harness.c18_history",
    "C19": "harness.c19_timeout", "C20": "harness.c20_import",
}


def _env(extra):
    e = dict(os.environ)
    # VP_REPO (development aid, used by bin/seedtest-wt): import osaca from another checkout than
    # /repo; the registered check commands never set it
    alt = e.get("VP_REPO")
    e["PYTHONPATH"] = (alt + os.pathsep if alt else "") + VERIF + os.pathsep + e.get("PYTHONPATH", "")
    e["PYTHONHASHSEED"] = "0"
    e["OSACA_VERIF"] = "1"
    e.update(extra)
    return e


def run_worker(modname, cell, budget, extra_env):
    fd, out = tempfile.mkstemp(prefix="vpw_", suffix=".json", dir=os.path.join(VERIF, ".work"))
    os.close(fd)
    hard = budget * 1.5 + 90
    t0 = time.time()
    try:
        p = subprocess.run([PY, "-m", "vp.worker", modname, cell, str(budget), out],
                           env=_env(extra_env), cwd=VERIF, capture_output=True, text=True, timeout=hard)
        try:
            with open(out) as f:
                res = json.load(f)
        except Exception:
            res = {"cell": cell, "status": "error", "error": "worker wrote no result; rc=%s stderr=%s" % (p.returncode, p.stderr[-2000:])}
    except subprocess.TimeoutExpired:
        res = {"cell": cell, "status": "inconclusive", "message": "hard timeout %.0fs" % hard, "paths": 0}
    finally:
        try:
            os.unlink(out)
        except OSError:
            pass
    res.setdefault("seconds", round(time.time() - t0, 2))
    res["twin"] = extra_env.get("VP_TWIN") == "1"
    if extra_env.get("VP_SHARD"):
        res["shard"] = extra_env["VP_SHARD"]
    res["kf_mode"] = extra_env.get("VP_KF_MODE", "outside")
    return res


def write_replay(pid, modname, res):
    d = os.path.join(VERIF, "replays", pid)
    os.makedirs(d, exist_ok=True)
    body = {"property": pid, "module": modname, "cell": res["cell"], "args": res.get("args", []),
            "kwargs": res.get("kwargs", {}), "twin": res.get("twin", False), "kf_mode": res.get("kf_mode", "outside"),
            "message": res.get("message", "")}
    h = hashlib.sha1(json.dumps(body, sort_keys=True, default=str).encode()).hexdigest()[:10]
    tag = "twin-" if body["twin"] else ("known-" if body["kf_mode"].startswith("inside:") else "")
    path = os.path.join(d, "%s%s-%s.json" % (tag, res["cell"], h))
    with open(path, "w") as f:
        json.dump(body, f, indent=1, default=str)
    return path


def do_replay(path):
    p = subprocess.run([PY, "-m", "vp.replay", path], env=_env({}), cwd=VERIF, capture_output=True, text=True, timeout=600)
    return p.returncode, (p.stdout + p.stderr)[-3000:]


def load_findings(pid):
    try:
        with open(os.path.join(VERIF, "known_findings.json")) as f:
            data = json.load(f)
    except FileNotFoundError:
        return []
    return [f for f in data.get("findings", []) if f["property"] == pid and f.get("status", "open") == "open"]


def main():
    ap = argparse.ArgumentParser()
    ap.add_argument("pid", nargs="?")
    ap.add_argument("--tier", default=os.environ.get("VERIF_TIER", "quick"))
    ap.add_argument("--cells", default="")
    ap.add_argument("--jobs", type=int, default=int(os.environ.get("VP_JOBS", "16")))
    ap.add_argument("--replay")
    ap.add_argument("--no-evidence", action="store_true")
    a = ap.parse_args()
    os.makedirs(os.path.join(VERIF, ".work"), exist_ok=True)

    if a.replay:
        rc, out = do_replay(a.replay)
        print(out)
        sys.exit(rc)

    pid, tier = a.pid, a.tier
    seed = int(os.environ.get("VERIF_SEED", "0") or 0)
    modname = HARNESS[pid]
    sys.path.insert(0, VERIF)
    t0 = time.time()
    mod = importlib.import_module(modname)
    cells = {k: v for k, v in mod.CELLS.items() if tier in v.get("tiers", ("quick", "thorough"))}
    if a.cells:
        want = a.cells.split(",")
        cells = {k: v for k, v in cells.items() if k in want}
    findings = load_findings(pid)

    jobs = []  # (cellname, role, budget, env)
    for name, c in cells.items():
        b = c.get("budget", {}).get(tier, 120 if tier == "quick" else 600)
        nsh = c.get("shards", {}).get(tier, 1) if isinstance(c.get("shards"), dict) else c.get("shards", 1)
        if nsh > 1:
            for k in range(nsh):
                jobs.append((name, "main", b, {"VP_KF_MODE": "outside", "VP_SHARD": "%d/%d" % (k, nsh)}))
        else:
            jobs.append((name, "main", b, {"VP_KF_MODE": "outside"}))
        if c.get("kind", "xh") != "smt" or c.get("twin", False):
            jobs.append((name, "twin", min(b, 120), {"VP_TWIN": "1", "VP_KF_MODE": "outside"}))
        for f in findings:
            if f["cell"] == name:
                jobs.append((name, "known:" + f["id"], min(b, 180), {"VP_KF_MODE": "inside:" + f["id"]}))
    # longest first
    jobs.sort(key=lambda j: -j[2])
    results = []
    with ThreadPoolExecutor(max_workers=a.jobs) as ex:
        futs = [(j, ex.submit(run_worker, modname, j[0], j[2], j[3])) for j in jobs]
        for j, fu in futs:
            r = fu.result()
            r["role"] = j[1]
            results.append(r)

    violations, known_hit, harness_errors, unreproduced, stale = [], [], [], [], []
    cell_rows = []
    for r in results:
        role = r["role"]
        row = {"cell": r["cell"] + ("#" + r["shard"] if r.get("shard") else ""), "role": role, "status": r["status"], "paths": r.get("paths", 0),
               "seconds": r.get("seconds"), "solver_queries": r.get("solver_queries", 0),
               "solver_seconds": r.get("solver_seconds", 0.0), "bound": r.get("bound", ""),
               "reached": r.get("reached", 0), "nontrivial": r.get("nontrivial", 0)}
        if r["status"] == "error":
            harness_errors.append("%s/%s: %s" % (r["cell"], role, r.get("error", "")[-1500:]))
        elif role == "twin":
            if r["status"] != "counterexample":
                harness_errors.append("%s: vacuity twin did not fire (%s: %s)" % (r["cell"], r["status"], r.get("message", "")))
            else:
                path = write_replay(pid, modname, r)
                rc, _ = do_replay(path)
                os.unlink(path)
                if rc != 1:
                    harness_errors.append("%s: vacuity twin model did not replay (rc=%s)" % (r["cell"], rc))
                row["status"] = "twin-fired"
        elif role.startswith("known:"):
            fid = role.split(":", 1)[1]
            f = [x for x in findings if x["id"] == fid][0]
            if r["status"] == "counterexample":
                path = write_replay(pid, modname, r)
                rc, _ = do_replay(path)
                if rc == 1:
                    known_hit.append((f, path))
                    row["status"] = "known-finding-reproduced"
                else:
                    os.unlink(path)
                    stale.append(fid)
                    row["status"] = "known-finding-unreproduced"
            else:
                stale.append(fid)
                row["status"] = "known-finding-not-found(%s)" % r["status"]
        else:
            if r["status"] == "counterexample":
                path = write_replay(pid, modname, r)
                rc, out = do_replay(path)
                if rc == 1:
                    violations.append((r, path, out))
                    row["status"] = "violation"
                else:
                    unreproduced.append({"cell": r["cell"], "args": r.get("args"), "kwargs": r.get("kwargs"), "message": r.get("message", "")[:300]})
                    os.unlink(path)
                    row["status"] = "inconclusive(unreproduced counterexample)"
            elif r["status"] == "vacuous":
                harness_errors.append("%s: precondition unsatisfiable" % r["cell"])
        row["message"] = (r.get("message") or "")[:300]
        cell_rows.append(row)

    mains = [r for r in cell_rows if r["role"] == "main"]
    confirmed = [r for r in mains if r["status"] == "confirmed"]
    inconclusive = [r for r in mains if r["status"].startswith("inconclusive")]
    wall = round(time.time() - t0, 2)

    samples = []
    for r in results:
        if r["role"] == "main":
            for s in r.get("samples", [])[:2]:
                samples.append({"cell": r["cell"], "case": s})
    if not samples:
        samples = [{"cell": r["cell"], "bound": r.get("bound", "")} for r in results if r["role"] == "main"][:3]

    meta = getattr(mod, "META", {})
    evidence = {
        "property_id": pid, "tier": tier, "seed": seed, "level": meta.get("level", "model_checking"),
        "coverage": {
            "evaluations": sum(r.get("paths", 0) or r.get("reached", 0) for r in mains),
            "distinct_nontrivial": sum(r.get("nontrivial", 0) for r in mains),
            "rule": meta.get("rule", "one evaluation = one symbolic path of the harness through the real code (a path covers every input satisfying its path condition); non-trivial = the path reached the assertion with a non-degenerate oracle value as defined per harness; paths are distinct by construction (disjoint path conditions)"),
            "samples": samples[:12],
            "exhaustive": bool(mains) and len(confirmed) == len(mains),
            "cells": cell_rows,
            "cells_confirmed": len(confirmed), "cells_inconclusive": len(inconclusive), "cells_total": len(mains),
            "functions_encoded": meta.get("functions", []),
            "bounds": meta.get("bounds", ""), "outside_claim": meta.get("outside", ""),
            "stubs": meta.get("stubs", []),
            "solver_queries": sum(r.get("solver_queries", 0) for r in results),
            "solver_seconds": round(sum(r.get("solver_seconds", 0.0) for r in results), 2),
            "unreproduced": unreproduced,
            "known_findings_hit": [f["id"] for f, _ in known_hit],
            "known_findings_stale": stale,
            "harness_errors": harness_errors,
        },
        "assumptions": meta.get("assumptions", []),
        "wall_s": wall,
        "violations": len(violations),
    }
    if not a.no_evidence and not a.cells:
        os.makedirs(os.path.join(VERIF, "evidence"), exist_ok=True)
        with open(os.path.join(VERIF, "evidence", pid + ".json"), "w") as f:
            json.dump(evidence, f, indent=1, default=str)

    for r in cell_rows:
        print("  %-34s %-7s %-44s paths=%-6s reached=%-6s t=%ss q=%s/%ss" % (
            r["cell"], r["role"][:7], r["status"][:44], r["paths"], r["reached"], r["seconds"], r["solver_queries"], r["solver_seconds"]))
    for f, path in known_hit:
        print("KNOWN-FINDING: property=%s %s [%s] replay=%s" % (pid, f["what"], f["id"], os.path.relpath(path, VERIF)))
    for fid in stale:
        print("note: known finding %s did not reproduce on this tree (stale entry?)" % fid)
    for u in unreproduced:
        print("note: unreproduced counterexample in %s (engine artefact), cell counted inconclusive: %s" % (u["cell"], u["message"][:160]))
    print("%s %s: %d/%d cells confirmed, %d inconclusive, %d violations, wall %.1fs" % (
        pid, tier, len(confirmed), len(mains), len(inconclusive), len(violations), wall))
    if violations:
        for r, path, out in violations:
            print(out[-1200:])
            print("VIOLATION property=%s replay=%s" % (pid, path))
        sys.exit(1)
    if harness_errors:
        for h in harness_errors:
            print("HARNESS-ERROR " + h)
        sys.exit(3)
    if not confirmed:
        print("HARNESS-ERROR no cell confirmed")
        sys.exit(3)
    sys.exit(0)


if __name__ == "__main__":
    main()
