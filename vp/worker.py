"""Run ONE cell in this process and write a JSON result.

usage: python -m vp.worker <harness module> <cell name> <budget s> <out.json>
env:   VP_TWIN=1 (vacuity twin), VP_KF_MODE, VERIF_SEED
"""
import ast
import importlib
import json
import os
import random
import re
import sys
import time
import traceback
from collections import Counter


def parse_call(message, fname):
    """Extract (args, kwargs) from CrossHair's 'when calling f(...)' message."""
    m = re.search(r"when calling (%s\(.*\))(?: \(which (?:returns|raises)|\s*$)" % re.escape(fname), message, re.S)
    if not m:
        return None
    src = m.group(1)
    # trim trailing text after the balanced call
    depth = 0
    for i, ch in enumerate(src):
        if ch == "(":
            depth += 1
        elif ch == ")":
            depth -= 1
            if depth == 0:
                src = src[: i + 1]
                break
    node = ast.parse(src, mode="eval").body
    env = {"float": float, "inf": float("inf"), "nan": float("nan")}
    args = [eval(compile(ast.Expression(a), "<a>", "eval"), env) for a in node.args]
    kwargs = {k.arg: eval(compile(ast.Expression(k.value), "<k>", "eval"), env) for k in node.keywords}
    return args, kwargs


def main():
    modname, cellname, budget, out = sys.argv[1], sys.argv[2], float(sys.argv[3]), sys.argv[4]
    os.environ["VP_CELL"] = cellname
    seed = int(os.environ.get("VERIF_SEED", "0") or 0)
    random.seed(seed)
    res = {"cell": cellname, "module": modname, "twin": os.environ.get("VP_TWIN") == "1",
           "kf_mode": os.environ.get("VP_KF_MODE", "outside"), "status": "error", "paths": 0,
           "solver_queries": 0, "solver_seconds": 0.0, "seconds": 0.0}
    t0 = time.time()
    try:
        import z3
        _orig_check = z3.Solver.check
        qstat = {"n": 0, "t": 0.0}

        def _timed_check(self, *a, **k):
            t = time.perf_counter()
            try:
                return _orig_check(self, *a, **k)
            finally:
                qstat["n"] += 1
                qstat["t"] += time.perf_counter() - t

        z3.Solver.check = _timed_check

        mod = importlib.import_module(modname)
        cell = mod.CELLS[cellname]
        res["bound"] = cell.get("bound", "")
        res["functions"] = cell.get("functions", [])
        from vp import api
        if cell.get("kind", "xh") == "smt":
            r = cell["fn"](budget)
            res.update(r)
        else:
            from crosshair.core_and_libs import analyze_function, run_checkables
            from crosshair.options import AnalysisOptionSet, AnalysisKind
            from crosshair.statespace import MessageType
            from crosshair.libimpl import builtinslib
            if cell.get("ieee"):
                builtinslib._PYTYPE_TO_WRAPPER_TYPE[float] = ((builtinslib.PreciseIeeeSymbolicFloat, 1.0),)
            else:
                # CrossHair's default mixes 98% real-based / 2% IEEE-precise float models; cells
                # that are not about rounding use the real-based model only (stated per cell)
                builtinslib._PYTYPE_TO_WRAPPER_TYPE[float] = ((builtinslib.RealBasedSymbolicFloat, 1.0),)
            # CrossHair caps the *reported* status at "unknown" whenever a real-based float was
            # created (honesty about reals-vs-IEEE), which hides whether the path tree was
            # exhausted.  Observe exhaustion and per-path statuses at the search tree itself.
            from crosshair import statespace as _ss
            tree = {"exhausted": False, "unknown_paths": 0, "confirmed_paths": 0, "capped": False}
            _orig_bubble = _ss.StateSpace.bubble_status

            def _bubble(self, analysis):
                vs = analysis.verification_status
                if vs == _ss.VerificationStatus.UNKNOWN:
                    tree["unknown_paths"] += 1
                elif vs == _ss.VerificationStatus.CONFIRMED:
                    tree["confirmed_paths"] += 1
                if self.status_cap is not None:
                    tree["capped"] = True
                ret = _orig_bubble(self, analysis)
                tree["exhausted"] = bool(ret[1])
                return ret

            _ss.StateSpace.bubble_status = _bubble
            st = Counter()
            opts = AnalysisOptionSet(
                per_condition_timeout=budget,
                per_path_timeout=cell.get("path_timeout", max(30.0, budget / 4)),
                report_all=True,
                analysis_kind=[AnalysisKind.PEP316],
                stats=st,
                max_uninteresting_iterations=sys.maxsize,
            )
            fn = cell["fn"]
            msgs = list(run_checkables(analyze_function(fn, opts)))
            res["paths"] = st.get("num_paths", 0)
            res["tree"] = tree
            res["messages"] = [(m.state.name, m.message) for m in msgs]
            states = [m.state for m in msgs]
            if not msgs:
                res["status"] = "error"
                res["error"] = "no conditions found"
            elif any(s in (MessageType.POST_FAIL, MessageType.EXEC_ERR, MessageType.POST_ERR, MessageType.PRE_UNSAT) for s in states):
                bad = [m for m in msgs if m.state in (MessageType.POST_FAIL, MessageType.EXEC_ERR, MessageType.POST_ERR)]
                if bad:
                    call = parse_call(bad[0].message, fn.__name__)
                    res["status"] = "counterexample"
                    res["message"] = bad[0].message
                    if call is None:
                        res["status"] = "error"
                        res["error"] = "cannot parse counterexample: " + bad[0].message
                    else:
                        res["args"], res["kwargs"] = call
                else:
                    res["status"] = "vacuous"
                    res["message"] = msgs[0].message
            elif all(s == MessageType.CONFIRMED for s in states):
                res["status"] = "confirmed"
            elif (len(msgs) == 1 and states[0] == MessageType.CANNOT_CONFIRM and tree["exhausted"]
                  and tree["unknown_paths"] == 0 and tree["confirmed_paths"] > 0 and tree["capped"] and not cell.get("ieee")):
                # every path of the exhausted tree passed; only CrossHair's real-float cap
                # prevented the word "Confirmed"
                res["status"] = "confirmed"
                res["float_model"] = "real-based (exhausted path tree; CrossHair status capped)"
            else:
                res["status"] = "inconclusive"
                res["message"] = "; ".join(m.message for m in msgs)
        if api.STATS.get("stub_gaps") and res.get("status") == "confirmed":
            res["status"] = "inconclusive"
            res["message"] = "environment stub does not model how the code uses it: " + "; ".join(api.STUB_GAP_NOTES)
        res["reached"] = api.STATS["reached"]
        res["nontrivial"] = api.STATS["nontrivial"]
        res["skipped_known"] = api.STATS["skipped_known"]
        res["samples"] = api.SAMPLES
        res["solver_queries"] = res.get("solver_queries", 0) + qstat["n"]
        res["solver_seconds"] = round(res.get("solver_seconds", 0.0) + qstat["t"], 3)
    except BaseException as e:  # noqa
        res["status"] = "error"
        res["error"] = "%s: %s\n%s" % (type(e).__name__, e, traceback.format_exc()[-3000:])
    res["seconds"] = round(time.time() - t0, 2)
    with open(out, "w") as f:
        json.dump(res, f, default=str)


if __name__ == "__main__":
    main()
