"""Harness-side API: verdict recording, vacuity twin, known-finding exclusion.

Imported by every harness module.  State lives in module globals of the worker
process (CrossHair runs the harness in-process, one path after the other).
"""
import json
import os

TWIN = os.environ.get("VP_TWIN") == "1"
CELL = os.environ.get("VP_CELL", "")
KF_MODE = os.environ.get("VP_KF_MODE", "outside")  # outside | inside:<finding id>
MAX_SAMPLES = 4

# per-process collectors (read by vp.worker after the run)
STATS = {"reached": 0, "nontrivial": 0, "skipped_known": 0, "stub_gaps": 0}
STUB_GAP_NOTES = []
SAMPLES = []

_KF = None


def shard(n):
    """Half-open index range [lo, hi) of 0..n-1 assigned to this worker (VP_SHARD=k/N).

    A harness restricts one of its symbolic indices to this range so that a large
    finite case split can be spread over several cores; without VP_SHARD (replay,
    single-process runs) the full range is returned.
    """
    spec = os.environ.get("VP_SHARD", "")
    if not spec:
        return 0, n
    k, total = (int(x) for x in spec.split("/"))
    return (n * k) // total, (n * (k + 1)) // total


def _load_kf():
    global _KF
    if _KF is None:
        path = os.path.join(os.path.dirname(os.path.dirname(os.path.abspath(__file__))),
                            "known_findings.json")
        try:
            with open(path) as f:
                data = json.load(f)
        except FileNotFoundError:
            data = {"findings": []}
        _KF = [f for f in data.get("findings", []) if f.get("status", "open") == "open"]
    return _KF


def _realize(x):
    try:
        from crosshair.core import deep_realize
        return deep_realize(x)
    except Exception:
        return x


def skip(args, cell=None):
    """True if this input must be skipped on this run.

    outside mode (default): inputs inside any known-finding predicate of this cell are
    skipped (the cell is decided on the complement).  inside:<id> mode: everything
    *outside* that finding's predicate is skipped, so the solver has to produce a model
    of the finding itself, which is then replayed.
    The predicate is evaluated on the (possibly symbolic) harness arguments.
    """
    cell = cell or CELL
    entries = [f for f in _load_kf() if f["cell"] == cell]
    if not entries:
        return False
    env = {k: v for k, v in args.items() if not k.startswith("_")}
    if KF_MODE.startswith("inside:"):
        fid = KF_MODE.split(":", 1)[1]
        for f in entries:
            if f["id"] == fid:
                return not bool(eval(f["predicate"], {"__builtins__": {"abs": abs, "min": min, "max": max, "len": len, "all": all, "any": any}}, env))
        return True
    for f in entries:
        if bool(eval(f["predicate"], {"__builtins__": {"abs": abs, "min": min, "max": max, "len": len, "all": all, "any": any}}, env)):
            STATS["skipped_known"] += 1
            return True
    return False


def kf_state(args, cell=None):
    """'full'    : check everything on this input
       'relaxed' : input lies inside a known finding's predicate (normal run): the harness may
                   drop exactly the clause the finding is about and must keep all others
       'skip'    : reproduction run for one finding and the input is outside its predicate"""
    cell = cell or CELL
    entries = [f for f in _load_kf() if f["cell"] == cell]
    if not entries:
        return "full"
    env = {k: v for k, v in args.items() if not k.startswith("_")}
    glb = {"__builtins__": {"abs": abs, "min": min, "max": max, "len": len, "all": all, "any": any}}
    if KF_MODE.startswith("inside:"):
        fid = KF_MODE.split(":", 1)[1]
        for f in entries:
            if f["id"] == fid:
                return "full" if bool(eval(f["predicate"], glb, env)) else "skip"
        return "skip"
    for f in entries:
        if bool(eval(f["predicate"], glb, env)):
            STATS["skipped_known"] += 1
            return "relaxed"
    return "full"


def verdict(cond, nontrivial=True, sample=None):
    """Decide the assertion on this path, record coverage, apply the vacuity twin.

    `cond` is forced to a concrete bool first (CrossHair forks here, both branches are
    explored); only afterwards is anything realised for the evidence samples, so sample
    collection can never hide the failing branch.
    """
    c = bool(cond)
    STATS["reached"] += 1
    if bool(nontrivial):
        STATS["nontrivial"] += 1
        if sample is not None and len(SAMPLES) < MAX_SAMPLES:
            try:
                s = sample() if callable(sample) else sample
                SAMPLES.append(json.loads(json.dumps(_realize(s), default=str)))
            except Exception as e:  # sample collection must never influence the verdict
                SAMPLES.append("sample-unavailable: %s" % type(e).__name__)
    if TWIN:
        return False
    return c


def in_shard_hash(values):
    """Evenly spread concrete case descriptors (e.g. an equality pattern) over VP_SHARD workers."""
    spec = os.environ.get("VP_SHARD", "")
    if not spec:
        return True
    k, total = (int(x) for x in spec.split("/"))
    h = 0
    for v in values:
        h = (h * 31 + int(v) + 7) % 1000003
    return h % total == k


def in_shard_index(idx):
    """Round-robin assignment of an enumerated concrete case index to VP_SHARD workers."""
    spec = os.environ.get("VP_SHARD", "")
    if not spec:
        return True
    k, total = (int(x) for x in spec.split("/"))
    return idx % total == k


class StubGap(Exception):
    """Raised by an environment stub when the code under test uses the stubbed facility in a way
    the stub does not model.  The path is then neither a pass nor a violation: the cell is
    reported inconclusive (the harness cannot decide the property for this implementation)."""


def stub_gap(note):
    STATS["stub_gaps"] += 1
    if len(STUB_GAP_NOTES) < 5:
        STUB_GAP_NOTES.append(str(note)[:200])
