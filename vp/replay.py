"""Replay a counterexample on the real code in a plain interpreter (no CrossHair).

usage: python -m vp.replay <replay.json>     exit 0: assertion holds on this input
                                             exit 1: assertion fails (reproduced)
                                             exit 3: replay file unusable
"""
import importlib
import json
import os
import sys
import traceback


def main():
    path = sys.argv[1]
    try:
        with open(path) as f:
            r = json.load(f)
        os.environ["VP_CELL"] = r["cell"]
        os.environ["VP_TWIN"] = "1" if r.get("twin") else "0"
        os.environ["VP_KF_MODE"] = r.get("kf_mode", "outside") if r.get("kf_mode", "").startswith("inside:") else "replay"
        mod = importlib.import_module(r["module"])
        cell = mod.CELLS[r["cell"]]
        fn = cell.get("replay") or cell["fn"]
    except Exception:
        traceback.print_exc()
        sys.exit(3)
    try:
        ok = fn(*r.get("args", []), **r.get("kwargs", {}))
    except Exception as e:
        print("REPLAY property=%s cell=%s raised %s: %s" % (r.get("property"), r["cell"], type(e).__name__, e))
        traceback.print_exc()
        sys.exit(1)
    if ok:
        print("REPLAY property=%s cell=%s holds on %s %s" % (r.get("property"), r["cell"], r.get("args"), r.get("kwargs")))
        sys.exit(0)
    print("REPLAY property=%s cell=%s FAILS on %s %s" % (r.get("property"), r["cell"], r.get("args"), r.get("kwargs")))
    detail = cell.get("explain")
    if detail:
        try:
            print(detail(*r.get("args", []), **r.get("kwargs", {})))
        except Exception:
            pass
    sys.exit(1)


if __name__ == "__main__":
    main()
