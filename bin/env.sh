#!/bin/bash
# Idempotent, offline bootstrap of the overlay venv used by every check.
# /verif/.venv = /venv (repo deps, python 3.12) overlay + crosshair-tool, z3-solver, cvc5 from the wheelhouse.
set -e
VERIF="$(cd "$(dirname "${BASH_SOURCE[0]}")/.." && pwd)"
VENV="$VERIF/.venv"
STAMP="$VENV/.ok"
if [ ! -f "$STAMP" ]; then
  (
    flock 9
    if [ ! -f "$STAMP" ]; then
      rm -rf "$VENV"
      /venv/bin/python -m venv "$VENV" >/dev/null
      SP="$VENV/lib/python3.12/site-packages"
      echo "import site; site.addsitedir('/venv/lib/python3.12/site-packages')" > "$SP/_overlay.pth"
      PIP_NO_INDEX=1 "$VENV/bin/pip" install -q --no-index --find-links /opt/veriftools/wheels \
          crosshair-tool z3-solver cvc5 jsonschema >/dev/null 2>&1 || \
      PIP_NO_INDEX=1 "$VENV/bin/pip" install --no-index --find-links /opt/veriftools/wheels \
          crosshair-tool z3-solver cvc5 jsonschema
      touch "$STAMP"
    fi
  ) 9>"$VERIF/.venv.lock"
fi
echo "$VENV/bin/python"
