#!/usr/bin/env python3
"""Regenerate /verif/MANIFEST.json from the table below (keeps the file schema-valid)."""
import json
import os

VERIF = os.path.dirname(os.path.dirname(os.path.abspath(__file__)))

TECH_XH = "bounded symbolic execution of the real Python functions (CrossHair + z3): cell decided only on path exhaustion, counterexamples replayed concretely"

# id -> dict(text, note, technique, design)
CLAIMED = {}
PENDING = {}


def claim(pid, text, note, technique=TECH_XH, design=None):
    CLAIMED[pid] = dict(text=text, note=note, technique=technique, design=design or ("DESIGN.md section 2 (as built) and Appendix A, " + pid))


def load_table():
    path = os.path.join(VERIF, "bin", "manifest_table.json")
    with open(path) as f:
        t = json.load(f)
    for pid, e in t["claimed"].items():
        claim(pid, e["text"], e["note"], e.get("technique", TECH_XH), e.get("design"))
    return t


def main():
    t = load_table()
    props = [json.loads(l)["id"] for l in open(os.path.join(VERIF, "properties.jsonl"))]
    checks = []
    for pid in props:
        if pid not in CLAIMED:
            continue
        c = CLAIMED[pid]
        checks.append({
            "property_id": pid,
            "quick_cmd": "bin/check %s --tier quick" % pid,
            "thorough_cmd": "bin/check %s --tier thorough" % pid,
            "evidence_file": "/verif/evidence/%s.json" % pid,
            "replay_cmd_template": "bin/check --replay {path}",
            "engine": "vp-runner",
            "level_claimed": {"category": "model_checking", "text": c["text"], "design_ref": c["design"]},
            "level_note": c["note"],
            "technique": c["technique"],
        })
    na = [{"property_id": pid, "reason": t["not_applicable"].get(pid, "no check built for this property yet; nothing is claimed")}
          for pid in props if pid not in CLAIMED]
    m = {
        "version": 1,
        "setup_cmd": "bin/env.sh",
        "hooks": {
            "guard": "OSACA_VERIF",
            "enable": "no source hooks: all stubs are applied from the harness side by rebinding module globals inside the check process (the runner exports OSACA_VERIF=1 for uniformity; /repo does not read it)",
            "baseline_off_cmd": "cd /repo && env -u OSACA_VERIF /venv/bin/python -m pytest -ra -q -p no:cacheprovider --timeout=900 --continue-on-collection-errors",
            "source_commits": [],
            "add_only": True,
        },
        "engines": [
            {"name": "vp-runner", "path": "/verif/vp/runner.py", "serves_properties": sorted(CLAIMED),
             "kind_free_text": "schedules harness cells (one process each, 16 in parallel); a cell = one harness function over symbolic ints/bools/floats/short strings that builds real OSACA objects, calls the real code and compares with an independent oracle; CrossHair 0.0.110 (z3 5.1) executes it symbolically, a cell is 'confirmed' only on path exhaustion; direct z3/cvc5 queries generated from the source AST for a few leaf kernels; counterexamples are replayed in a plain interpreter before VIOLATION is printed"},
        ],
        "checks": checks,
        "not_applicable": na,
        "notes": t.get("notes", ""),
    }
    with open(os.path.join(VERIF, "MANIFEST.json"), "w") as f:
        json.dump(m, f, indent=1)
    try:
        import jsonschema
        jsonschema.validate(m, json.load(open("/root/.vp/MANIFEST.schema.json")))
        print("MANIFEST.json valid: %d checks, %d not_applicable" % (len(checks), len(na)))
    except ImportError:
        print("MANIFEST.json written (jsonschema not available)")


if __name__ == "__main__":
    main()
