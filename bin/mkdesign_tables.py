#!/usr/bin/env python3
"""Regenerate the generated tables of DESIGN.md (fixed defects, open findings, seeded changes)."""
import glob, json, os, re
V = os.path.dirname(os.path.dirname(os.path.abspath(__file__)))
s = open(os.path.join(V, "DESIGN.md")).read()
d = json.load(open(os.path.join(V, "known_findings.json")))
fixed = "\n".join("* " + f for f in d["fixed"]) + "\n"
openf = "\n".join("* **%s** (cell `%s`, predicate `%s`): %s" % (f["id"], f["cell"], f["predicate"], f["what"]) for f in d["findings"]) + "\n"
rows = []
first_missed = 0
for m in sorted(glob.glob(os.path.join(V, "seeded", "*", "meta.json"))):
    j = json.load(open(m))
    name = os.path.basename(os.path.dirname(m))
    if "missed" in j["detected_by"].lower() or "added after" in j["detected_by"].lower():
        first_missed += 1
    rows.append("| %s | %s | %s |" % (name, j["needs_to_manifest"].replace("|", "/"), j["detected_by"].replace("|", "/")))
seeds = ("%d seeded changes; %d were first missed and led to a strengthening (named in the last column).\n\n" % (len(rows), first_missed)
         + "| seeded change | needs, to manifest | detected by |\n|---|---|---|\n" + "\n".join(rows) + "\n")
for tag, body in (("FIXED", fixed), ("OPEN", openf), ("SEEDS", seeds)):
    s = re.sub(r"<!-- GEN:%s -->.*?<!-- /GEN:%s -->" % (tag, tag), lambda m: "<!-- GEN:%s -->\n%s<!-- /GEN:%s -->" % (tag, body, tag), s, flags=re.S)
open(os.path.join(V, "DESIGN.md"), "w").write(s)
print("DESIGN.md tables regenerated: %d fixed, %d open, %d seeds (%d first missed)" % (len(d["fixed"]), len(d["findings"]), len(rows), first_missed))
