"""C03 - register dependency graph = read-after-write relation.

Factors (see DESIGN C03):
 (a) scan:   KernelDG.create_DG / find_depending / is_read / is_written against the reference
             RAW relation, register identity symbolic by equality pattern, write kind
             (destination vs. read-modify-write) symbolic, flags, memory address registers,
             AArch64 base write-back; edge weights.
 (b) roles:  ISASemantics.assign_src_dst on synthetic in-memory ISA models: symbolic
             per-operand roles, hidden operands, zero idiom, default roles, memory fallback,
             AArch64 write-back post-processing.
 (c) alias:  C12.
"""
from osaca.parser.flag import FlagOperand
from osaca.parser.immediate import ImmediateOperand
from osaca.parser.memory import MemoryOperand
from osaca.parser.register import RegisterOperand
from osaca.parser.instruction_form import InstructionForm
from osaca.semantics import INSTR_FLAGS

from vp.api import verdict, skip, in_shard_index, shard
from vp.symx import canon, pick, native, pattern_index
from vp.synth import DG, NativeParser, PX, PA, iform, class_reg, ref_raw, mk_model, mk_sem, add_entry


def _edges(g, n):
    out = {}
    for u, v, w in g.dg.edges(data="latency"):
        if int(u) != u:
            continue  # load-stage node
        out[(u - 1, v - 1)] = w
    return out


# ---- (a) scan: registers -----------------------------------------------------------------

def _scan_concrete(isa, nreads, pat, kinds, narrow):
    n = len(nreads)
    k = 0
    kernel, instrs = [], []
    lat = [10 + i for i in range(n)]
    wo = [1 << i for i in range(n)]
    for i in range(n):
        rc = pat[k:k + nreads[i]]
        wc = pat[k + nreads[i]]
        k += nreads[i] + 1
        src = [class_reg(isa, c, narrow=narrow) for c in rc]
        w = class_reg(isa, wc)
        if kinds[i]:
            kernel.append(iform(i + 1, src=src, src_dst=[w], lat=lat[i], wo=wo[i]))
            instrs.append((set(rc) | {wc}, {wc}))
        else:
            kernel.append(iform(i + 1, src=src, dst=[w], lat=lat[i], wo=wo[i]))
            instrs.append((set(rc), {wc}))
    g = DG(kernel, NativeParser(PX if isa == "x86" else PA))
    got = _edges(g, n)
    ref = set((i, j) for i, j, _ in ref_raw(instrs))
    ok = set(got) == ref and all(got[(i, j)] == wo[i] and i < j for (i, j) in got)
    return ok, len(ref) > 0, {"pattern": list(pat), "rmw": list(kinds), "edges": sorted(map(list, ref))}


def _scan(isa, nreads, flat, kinds, narrow, prefix=4):
    pre = canon(flat[:prefix])
    if not in_shard_index(pattern_index(pre)):
        return True
    pat = canon(flat)
    kk = [True if x else False for x in kinds]
    ok, nt, sample = native(_scan_concrete, isa, list(nreads), list(pat), kk, True if narrow else False)
    return verdict(ok, nontrivial=nt, sample=sample)


def raw3_x86(r0: int, w0: int, r1: int, w1: int, r2: int, w2: int, k0: bool, k1: bool, k2: bool, narrow: bool) -> bool:
    """
    post: _
    """
    if skip(locals()):
        return True
    return _scan("x86", [1, 1, 1], [r0, w0, r1, w1, r2, w2], [k0, k1, k2], narrow)


def raw3_a64(r0: int, w0: int, r1: int, w1: int, r2: int, w2: int, k0: bool, k1: bool, k2: bool, narrow: bool) -> bool:
    """
    post: _
    """
    if skip(locals()):
        return True
    return _scan("aarch64", [1, 1, 1], [r0, w0, r1, w1, r2, w2], [k0, k1, k2], narrow)


def raw4_x86(r0: int, w0: int, r1: int, w1: int, r2: int, w2: int, r3: int, w3: int, k1: bool, k2: bool) -> bool:
    """
    post: _
    """
    if skip(locals()):
        return True
    return _scan("x86", [1, 1, 1, 1], [r0, w0, r1, w1, r2, w2, r3, w3], [False, k1, k2, False], False, prefix=5)


def _multi_concrete(isa, pat, kind):
    """i0 writes TWO registers (A and B: two destinations, or for kind 1 a load with data register A and
    written-back base B); i1 reads X and writes Y; i2 reads Z.  pat over [A, B, X, Y, Z]."""
    A, B, X, Y, Z = pat
    if A == B:
        return None
    model = mk_model(isa, ports=["0"], p_index_latency=3)
    if kind == 1:
        mem = MemoryOperand(base=class_reg(isa, B), offset=None, post_indexed={"value": 8})
        wb = class_reg(isa, B)
        wb.post_indexed = mem.post_indexed
        i0 = iform(1, src=[mem], dst=[class_reg(isa, A)], src_dst=[wb], lat=10, wo=1, flags=[INSTR_FLAGS.HAS_LD, INSTR_FLAGS.LD])
        r0 = {B}
    else:
        i0 = iform(1, src=[class_reg(isa, 8)], dst=[class_reg(isa, A), class_reg(isa, B)], lat=10, wo=1)
        r0 = {8}
    i1 = iform(2, src=[class_reg(isa, X)], dst=[class_reg(isa, Y)], lat=11, wo=2)
    i2 = iform(3, src=[class_reg(isa, Z)], dst=[class_reg(isa, 7)], lat=12, wo=4)
    g = DG([i0, i1, i2], NativeParser(PX if isa == "x86" else PA), model=model)
    got = set(_edges(g, 3))
    ref = set((i, j) for i, j, _ in ref_raw([(r0, {A, B}), ({X}, {Y}), ({Z}, {7})]))
    return got == ref, len(ref) > 0, {"pattern": list(pat), "kind": ["two destinations", "load with write-back"][kind], "edges": sorted(map(list, ref))}


def raw_multi_dest(a: int, b: int, x: int, y: int, z: int, kind: int, a64: bool) -> bool:
    """
    pre: 0 <= kind <= 1
    post: _
    """
    if skip(locals()):
        return True
    flat = [a, b, x, y, z]
    pre = canon(flat[:3])
    if not in_shard_index(pattern_index(pre)):
        return True
    pat = canon(flat)
    k = pick(kind, 2)
    isa = "aarch64" if (a64 or k == 1) else "x86"
    if k == 1 and not a64:
        return True
    res = native(_multi_concrete, isa, list(pat), k)
    if res is None:
        return True
    return verdict(res[0], nontrivial=res[1], sample=res[2])


def raw3_two_reads(a0: int, b0: int, w0: int, a1: int, b1: int, w1: int, a2: int, b2: int, w2: int) -> bool:
    """
    post: _
    """
    if skip(locals()):
        return True
    return _scan("x86", [2, 2, 2], [a0, b0, w0, a1, b1, w1, a2, b2, w2], [False, False, False], False, prefix=5)


# ---- (a) scan: flags ------------------------------------------------------------------------

def _flags_concrete(isa, fw, fr, flag_deps, samename, regdep):
    kernel, instrs = [], []
    for i in range(3):
        # registers: optionally a plain register chain 0 -> 1 -> 2 so flag and register edges coexist
        rs = {10 + i - 1} if (regdep and i > 0) else {20 + i}
        ws = {10 + i}
        src = [class_reg(isa, 3 + i - 1) if (regdep and i > 0) else class_reg(isa, 6)]
        dst = [class_reg(isa, 3 + i)]
        rs = {3 + i - 1} if (regdep and i > 0) else {6}
        ws = {3 + i}
        fname = "CF" if (samename or i == 0) else "ZF"
        if fr[i]:
            src.append(FlagOperand(name=fname, source=True))
            if flag_deps:
                rs.add(fname)
        if fw[i]:
            dst.append(FlagOperand(name=fname, destination=True))
            if flag_deps:
                ws.add(fname)
        kernel.append(iform(i + 1, src=src, dst=dst, lat=10 + i, wo=1 << i))
        instrs.append((rs, ws))
    g = DG(kernel, NativeParser(PX if isa == "x86" else PA), flag_dependencies=flag_deps)
    got = _edges(g, 3)
    ref = set((i, j) for i, j, _ in ref_raw(instrs))
    ok = set(got) == ref and all(got[(i, j)] == (1 << i) for (i, j) in got)
    return ok, len(ref) > 0, {"fw": fw, "fr": fr, "flag_deps": flag_deps, "edges": sorted(map(list, ref))}


def raw_flags(fw0: bool, fr0: bool, fw1: bool, fr1: bool, fw2: bool, fr2: bool, flag_deps: bool, samename: bool, regdep: bool, a64: bool) -> bool:
    """
    post: _
    """
    if skip(locals()):
        return True
    c = [True if x else False for x in (fw0, fr0, fw1, fr1, fw2, fr2, flag_deps, samename, regdep, a64)]
    idx = sum(1 << k for k, b in enumerate(c) if b)
    if not in_shard_index(idx):
        return True
    ok, nt, sample = native(_flags_concrete, "aarch64" if c[9] else "x86", [c[0], c[2], c[4]], [c[1], c[3], c[5]], c[6], c[7], c[8])
    return verdict(ok, nontrivial=nt, sample=sample)


# ---- (a) scan: memory address registers and write-back -------------------------------------

def _mem_concrete(isa, pat, has_index, is_store, pre, post, p_index_latency):
    """0: writes A.  1: memory instruction, base B, index I (optional), data register D.  2: reads R.
    pat over [A, B, I, D, R]."""
    A, B, I, D, R = pat
    if not is_store and (D == B or (has_index and D == I)) and (pre or post):
        return None  # load that overwrites its own write-back base: architecturally unpredictable
    model = mk_model(isa, ports=["0"], p_index_latency=p_index_latency)
    i0 = iform(1, src=[class_reg(isa, 8)], dst=[class_reg(isa, A)], lat=10, wo=1)
    mem = MemoryOperand(base=class_reg(isa, B), index=class_reg(isa, I) if has_index else None,
                        offset=ImmediateOperand(value=8), scale=1,
                        pre_indexed=pre, post_indexed={"value": 8} if post else False)
    reads1 = {B} | ({I} if has_index else set())
    writes1 = set()
    sd = []
    if pre or post:
        wb = class_reg(isa, B)
        wb.pre_indexed = mem.pre_indexed
        wb.post_indexed = mem.post_indexed
        sd = [wb]
        writes1.add(B)
    data = class_reg(isa, D)
    if is_store:
        i1 = iform(2, src=[data], dst=[mem], src_dst=sd, lat=11, wo=2)
        reads1.add(D)
    else:
        i1 = iform(2, src=[mem], dst=[data], src_dst=sd, lat=11, wo=2, flags=[INSTR_FLAGS.HAS_LD, INSTR_FLAGS.LD])
        writes1.add(D)
    i2 = iform(3, src=[class_reg(isa, R)], dst=[class_reg(isa, 7)], lat=12, wo=4)
    kernel = [i0, i1, i2]
    instrs = [({8}, {A}), (reads1, writes1), ({R}, {7})]
    g = DG(kernel, NativeParser(PX if isa == "x86" else PA), model=model)
    got = _edges(g, 3)
    raw = ref_raw(instrs)
    ref = set((i, j) for i, j, _ in raw)
    ok = set(got) == ref
    if ok:
        for (i, j) in got:
            locs = set(l for a, b, l in raw if (a, b) == (i, j))
            if i == 1 and (pre or post) and locs == {B}:
                want = p_index_latency  # pure write-back edge
            elif i == 1 and (pre or post) and B in locs:
                continue  # data and write-back edge to the same consumer: either weight is defensible
            else:
                want = [1, 2, 4][i]
            if got[(i, j)] != want:
                ok = False
    return ok, len(ref) > 0, {"pattern": list(pat), "index": has_index, "store": is_store, "pre": pre, "post": post, "edges": sorted(map(list, ref))}


def raw_mem_a64(a: int, b: int, i: int, d: int, r: int, has_index: bool, is_store: bool, mode: int) -> bool:
    """
    pre: 0 <= mode <= 2
    post: _
    """
    if skip(locals()):
        return True
    flat = [a, b, i, d, r]
    pre = canon(flat[:3])
    if not in_shard_index(pattern_index(pre)):
        return True
    pat = canon(flat)
    m = pick(mode, 3)
    hi = True if has_index else False
    if hi and m != 0:
        return True  # register-offset addressing has no write-back form
    res = native(_mem_concrete, "aarch64", list(pat), hi, True if is_store else False, m == 1, m == 2, 3)
    if res is None:
        return True
    return verdict(res[0], nontrivial=res[1], sample=res[2])


def raw_mem_x86(a: int, b: int, i: int, d: int, r: int, has_index: bool, is_store: bool) -> bool:
    """
    post: _
    """
    if skip(locals()):
        return True
    flat = [a, b, i, d, r]
    pre = canon(flat[:3])
    if not in_shard_index(pattern_index(pre)):
        return True
    pat = canon(flat)
    res = native(_mem_concrete, "x86", list(pat), True if has_index else False, True if is_store else False, False, False, 1)
    return verdict(res[0], nontrivial=res[1], sample=res[2])


def raw_weights(lat0: int, wo0: int, pil: int, wb: bool, has_ld: bool) -> bool:
    """
    pre: 0 <= wo0 <= lat0 <= 100 and 0 <= pil <= 20
    post: _
    """
    # numbers symbolic (traced): edge weight = producer latency without load / p_index_latency
    if skip(locals()):
        return True
    isa = "aarch64"
    model = mk_model(isa, ports=["0"], p_index_latency=pil)
    if wb:
        mem = MemoryOperand(base=class_reg(isa, 1), offset=ImmediateOperand(value=8), post_indexed={"value": 8})
        w = class_reg(isa, 1)
        w.post_indexed = mem.post_indexed
        i0 = iform(1, src=[mem], dst=[class_reg(isa, 2)], src_dst=[w], lat=lat0, wo=wo0, flags=[INSTR_FLAGS.HAS_LD] if has_ld else [])
        i1 = iform(2, src=[class_reg(isa, 1)], dst=[class_reg(isa, 3)], lat=1)
        want = pil
    else:
        i0 = iform(1, src=[class_reg(isa, 0)], dst=[class_reg(isa, 1)], lat=lat0, wo=wo0, flags=[INSTR_FLAGS.HAS_LD] if has_ld else [])
        i1 = iform(2, src=[class_reg(isa, 1)], dst=[class_reg(isa, 3)], lat=1)
        want = wo0
    g = DG([i0, i1], NativeParser(PA), model=model)
    e = g.dg.edges
    ok = (1, 2) in e and e[1, 2]["latency"] == want
    if has_ld:
        ok = ok and (1.1, 1) in e and e[1.1, 1]["latency"] == lat0 - wo0
    else:
        ok = ok and not g.dg.has_node(1.1)
    return verdict(ok, nontrivial=True, sample=lambda: {"lat": lat0, "wo": wo0, "p_index_latency": pil, "wb": wb})


# ---- (b) roles: assign_src_dst ---------------------------------------------------------------

ROLE = [(True, True), (True, False), (False, True), (False, False)]


def _roles_concrete(isa, nops, roles, entry_present, hidden, hidden_role, breaks, all_equal, mem_pos, mem_mode, mem_entry, suffix=False):
    """One synthetic mnemonic 'op' with nops register operands (operand mem_pos is a memory
    operand if mem_pos < nops).  Returns (ok, nontrivial, sample)."""
    isa_model = mk_model(isa)
    model = mk_model(isa, ports=["0"])
    sem = mk_sem(model, isa_model)
    gpr = (lambda s, d: RegisterOperand(name="gpr", source=s, destination=d)) if isa == "x86" else \
          (lambda s, d: RegisterOperand(prefix="x", source=s, destination=d))
    ent_ops = []
    for k in range(nops):
        s, d = ROLE[roles[k]]
        if k == mem_pos and mem_entry:
            ent_ops.append(MemoryOperand(base="*", offset="*", index="*", scale="*", pre_indexed="*", post_indexed="*", source=s, destination=d))
        else:
            ent_ops.append(gpr(s, d))
    hops = []
    if hidden:
        hs, hd = ROLE[hidden_role]
        hops = [FlagOperand(name="CF", source=hs, destination=hd)]
    if entry_present:
        add_entry(isa_model, "op", ent_ops, hidden_operands=hops, breaks=breaks)
    # the instruction
    ops = []
    for k in range(nops):
        if k == mem_pos:
            pre = mem_mode == 1
            post = {"value": 16} if mem_mode == 2 else False
            ops.append(MemoryOperand(base=class_reg(isa, 5), offset=ImmediateOperand(value=8), pre_indexed=pre, post_indexed=post))
        else:
            ops.append(class_reg(isa, 0 if all_equal else k))
    # suffix: the instruction carries an AT&T size suffix / AArch64 '.x' suffix, the ISA entry does not
    f = InstructionForm(mnemonic=("opq" if isa == "x86" else "op.x") if suffix else "op", operands=ops, line="op", line_number=1)
    f.flags = []
    sem.assign_src_dst(f)
    so = f.semantic_operands
    # ---- oracle
    exp = {"source": [], "destination": [], "src_dst": []}
    has_mem = mem_pos < nops
    found = entry_present and (not has_mem or mem_entry or True)
    # entry matches: register entry operands match register operands; for a memory operand either
    # the entry declares memory at that position, or the register form is used as fall-back
    if entry_present:
        if breaks and nops >= 1 and not has_mem and (all_equal or nops == 1):
            exp["destination"] = list(ops) + list(hops)
        else:
            for k in range(nops):
                s, d = ROLE[roles[k]]
                key = "src_dst" if (s and d) else "source" if s else "destination" if d else None
                if key:
                    exp[key].append(ops[k])
            for h in hops:
                hs, hd = h.source, h.destination
                key = "src_dst" if (hs and hd) else "source" if hs else "destination"
                exp[key].append(h)
    else:
        if nops == 1:
            exp["source"] = [ops[0]]
        elif nops > 1:
            if isa == "x86":
                exp["source"] = ops[:-1]
                exp["destination"] = ops[-1:]
            else:
                exp["source"] = ops[1:]
                exp["destination"] = ops[:1]
    wb_expected = False
    if isa == "aarch64" and has_mem and mem_mode in (1, 2):
        m = ops[mem_pos]
        if any(m is x for x in exp["source"]) or any(m is x for x in exp["destination"]):
            wb_expected = True

    def same(a, b):
        return len(a) == len(b) and all(x is y for x, y in zip(a, b))

    ok = same(so["source"], exp["source"]) and same(so["destination"], exp["destination"])
    if wb_expected:
        sd = so["src_dst"]
        ok = ok and len(sd) == len(exp["src_dst"]) + 1 and same(sd[:-1], exp["src_dst"])
        if ok:
            wb = sd[-1]
            ok = isinstance(wb, RegisterOperand) and wb.name == "6" and wb.prefix == "x" and bool(wb.pre_indexed or wb.post_indexed)
    else:
        ok = ok and same(so["src_dst"], exp["src_dst"])
    # load / store flags
    mem_read = has_mem and any(ops[mem_pos] is x for x in so["source"] + so["src_dst"])
    mem_written = has_mem and any(ops[mem_pos] is x for x in so["destination"] + so["src_dst"])
    ok = ok and ((INSTR_FLAGS.HAS_LD in f.flags) == mem_read) and ((INSTR_FLAGS.HAS_ST in f.flags) == mem_written)
    return ok, True, {"isa": isa, "nops": nops, "roles": roles[:nops], "entry": entry_present, "hidden": hidden, "breaks": breaks,
                      "all_equal": all_equal, "mem_pos": mem_pos if has_mem else None, "mem_mode": mem_mode, "mem_entry": mem_entry}


def _role_cases():
    import itertools
    cases = []
    for isa in ("x86", "aarch64"):
        for n in (1, 2, 3):
            # without an ISA entry: defaults; memory operand at each position / none, each mode
            for mp in list(range(n)) + [3]:
                for mm in ((0, 1, 2) if (isa == "aarch64" and mp < 3) else (0,)):
                    cases.append((isa, n, [0, 0, 0], False, False, 0, False, False, mp, mm, False))
            for rr in itertools.product(range(4), repeat=n):
                rr = list(rr) + [0] * (3 - n)
                for hid, hr in ((False, 0), (True, 0), (True, 1), (True, 2)):
                    # register-only forms incl. zero idioms
                    for br in (False, True):
                        for ae in (False, True):
                            cases.append((isa, n, rr, True, hid, hr, br, ae, 3, 0, False))
                    # memory operand forms
                    for mp in range(n):
                        for mm in ((0, 1, 2) if isa == "aarch64" else (0,)):
                            for me in (False, True):
                                cases.append((isa, n, rr, True, hid, hr, False, False, mp, mm, me))
                                if mm == 0:
                                    cases.append((isa, n, rr, True, hid, hr, False, False, mp, mm, me, True))     # suffixed mnemonic
                    cases.append((isa, n, rr, True, hid, hr, False, False, 3, 0, False, True))
    return cases


ROLE_CASES = _role_cases()


def roles(case: int) -> bool:
    """
    pre: 0 <= case < len(ROLE_CASES)
    post: _
    """
    if skip(locals()):
        return True
    lo, hi = shard(len(ROLE_CASES))
    if not (lo <= case < hi):
        return True
    c = ROLE_CASES[pick(case, len(ROLE_CASES))]
    ok, nt, sample = native(_roles_concrete, *c)
    return verdict(ok, nontrivial=nt, sample=sample)


# ---- (b-real) curated real vocabulary on the shipped ISA databases ---------------------------------
# (line, registers read, registers written) - architectural roles written from the ISA manuals; only
# instructions whose roles do not hinge on the documented default rule for forms without ISA entry

VOCAB = {
    "x86": [
        ("addq %rax, %rbx", {"rax", "rbx"}, {"rbx"}), ("movq %rax, %rbx", {"rax"}, {"rbx"}), ("xorq %rax, %rax", set(), {"rax"}),
        ("cmpq %rax, %rbx", {"rax", "rbx"}, set()), ("leaq 8(%rax,%rbx,2), %rcx", {"rax", "rbx"}, {"rcx"}), ("imulq %rax, %rbx", {"rax", "rbx"}, {"rbx"}),
        ("imulq $3, %rax, %rbx", {"rax"}, {"rbx"}), ("vfmadd231pd %ymm1, %ymm2, %ymm3", {"ymm1", "ymm2", "ymm3"}, {"ymm3"}),
        ("vaddpd %ymm1, %ymm2, %ymm3", {"ymm1", "ymm2"}, {"ymm3"}), ("movq (%rax), %rbx", {"rax"}, {"rbx"}), ("movq %rbx, (%rax)", {"rax", "rbx"}, set()),
        ("incq %rax", {"rax"}, {"rax"}), ("subq %rax, %rax", set(), {"rax"}), ("vxorpd %xmm0, %xmm0, %xmm0", set(), {"xmm0"}), ("addq $1, (%rax)", {"rax"}, set()),
        ("vmovapd %ymm1, %ymm2", {"ymm1"}, {"ymm2"}), ("testq %rax, %rax", {"rax"}, set()), ("shlq $2, %rax", {"rax"}, {"rax"}),
        ("vdivsd %xmm1, %xmm2, %xmm3", {"xmm1", "xmm2"}, {"xmm3"}), ("movl $1, %eax", set(), {"eax"}), ("pxor %xmm1, %xmm1", set(), {"xmm1"}),
        ("vcvtsi2sd %rax, %xmm1, %xmm2", {"rax", "xmm1"}, {"xmm2"}), ("jne .L1", set(), set()),
    ],
    "aarch64": [
        ("add x1, x2, x3", {"x2", "x3"}, {"x1"}), ("adds x1, x2, x3", {"x2", "x3"}, {"x1"}), ("cmp x1, x2", {"x1", "x2"}, set()), ("mov x1, x2", {"x2"}, {"x1"}),
        ("fmla v1.2d, v2.2d, v3.2d", {"v1", "v2", "v3"}, {"v1"}), ("fadd d1, d2, d3", {"d2", "d3"}, {"d1"}), ("ldr x1, [x2]", {"x2"}, {"x1"}),
        ("ldr x1, [x2], #8", {"x2"}, {"x1", "x2"}), ("ldr x1, [x2, #8]!", {"x2"}, {"x1", "x2"}), ("str x1, [x2]", {"x1", "x2"}, set()),
        ("stp x1, x2, [x3]", {"x1", "x2", "x3"}, set()), ("ldp x1, x2, [x3]", {"x3"}, {"x1", "x2"}), ("b.ne .L1", set(), set()),
        ("madd x1, x2, x3, x4", {"x2", "x3", "x4"}, {"x1"}), ("csel x1, x2, x3, ne", {"x2", "x3"}, {"x1"}), ("fmov d1, d2", {"d2"}, {"d1"}),
        ("scvtf d1, x2", {"x2"}, {"d1"}), ("subs x1, x1, #1", {"x1"}, {"x1"}), ("str x1, [x2], #8", {"x1", "x2"}, {"x2"}),
        ("fmadd d1, d2, d3, d4", {"d2", "d3", "d4"}, {"d1"}), ("ldr q1, [x2, x3]", {"x2", "x3"}, {"q1"}), ("mul x1, x2, x3", {"x2", "x3"}, {"x1"}),
        ("neg x1, x2", {"x2"}, {"x1"}), ("fmul v1.2d, v2.2d, v3.d[0]", {"v2", "v3"}, {"v1"}), ("dup v1.2d, x2", {"x2"}, {"v1"}), ("tst x1, x2", {"x1", "x2"}, set()),
        ("tst w1, #3", {"w1"}, set()),
    ],
}
_REAL = {}


def _real_sem(isa):
    if isa not in _REAL:
        from harness.c06_memdep import SEM
        _REAL[isa] = SEM[isa]
    return _REAL[isa]


def _rw_of(isa, form):
    """register names read / written according to the assigned semantic operands"""
    so = form.semantic_operands

    def nm(r):
        return ((r.prefix or "") + str(r.name)).lower()
    R, Wr = set(), set()
    for o in so["source"] + so["src_dst"]:
        if isinstance(o, RegisterOperand):
            R.add(nm(o))
    for o in so["destination"] + so["src_dst"]:
        if isinstance(o, RegisterOperand):
            Wr.add(nm(o))
    for o in so["source"] + so["src_dst"] + so["destination"]:
        if isinstance(o, MemoryOperand):
            if o.base is not None:
                R.add(nm(o.base))
            if o.index is not None:
                R.add(nm(o.index))
            if o.pre_indexed or o.post_indexed:
                Wr.add(nm(o.base))
    return R, Wr


def _parse(isa, line, ln):
    p = PX if isa == "x86" else PA
    f = p.parse_line(line, ln)
    f.flags = []
    _real_sem(isa).assign_src_dst(f)
    f.latency = f.latency_wo_load = 1.0
    f.throughput = 1.0
    f.latency_cp = f.latency_lcd = 0
    return f


def _real_roles_concrete(isa, i):
    line, R, Wr = VOCAB[isa][i]
    f = _parse(isa, line, 1)
    gr, gw = _rw_of(isa, f)
    return gr == R and gw == Wr, True, {"isa": isa, "line": line, "reads": sorted(R), "writes": sorted(Wr), "assigned_reads": sorted(gr), "assigned_writes": sorted(gw)}


def real_roles(a64: bool, i: int) -> bool:
    """
    pre: 0 <= i < 27
    post: _
    """
    isa = "aarch64" if a64 else "x86"
    k = pick(i, 27)
    if k >= len(VOCAB[isa]):
        return True
    if skip({"isa": isa, "line": VOCAB[isa][k][0]}):
        return True
    ok, nt, sample = native(_real_roles_concrete, isa, k)
    return verdict(ok, nontrivial=nt, sample=sample)


def _alias(isa, a, b):
    p = PX if isa == "x86" else PA
    if isa == "x86":
        return bool(p.is_reg_dependend_of(RegisterOperand(name=a), RegisterOperand(name=b)))
    return bool(p.is_reg_dependend_of(RegisterOperand(prefix=a[0], name=a[1:]), RegisterOperand(prefix=b[0], name=b[1:])))


def _real_pairs_concrete(isa, i, j, k):
    """kernel [A, B, C] from the vocabulary, registers as written: edges = RAW over the architectural roles"""
    idx = [i, j, k]
    forms = [_parse(isa, VOCAB[isa][x][0], n + 1) for n, x in enumerate(idx)]
    g = DG(forms, NativeParser(PX if isa == "x86" else PA), model=mk_model(isa, ports=["0"], p_index_latency=1, store_to_load_forward_latency=0), sem=_real_sem(isa))
    got = set((int(u) - 1, int(v) - 1) for u, v in g.dg.edges() if int(u) == u)
    want = set()
    for a in range(3):
        for r in VOCAB[isa][idx[a]][2]:
            for b in range(a + 1, 3):
                if any(_alias(isa, r, x) for x in VOCAB[isa][idx[b]][1]):
                    want.add((a, b))
                if any(_alias(isa, r, x) for x in VOCAB[isa][idx[b]][2]):
                    break
    # store -> load edges through memory are C06's subject: ignore pairs (store, load) here
    mem_pairs = set((a, b) for a in range(3) for b in range(a + 1, 3)
                    if "(" in VOCAB[isa][idx[a]][0] or "[" in VOCAB[isa][idx[a]][0])
    return (got - mem_pairs) == (want - mem_pairs), len(want) > 0, {"isa": isa, "kernel": [VOCAB[isa][x][0] for x in idx], "edges": sorted(map(list, want))}


def real_pairs(a64: bool, i: int, j: int, k: int) -> bool:
    """
    pre: 0 <= i < 27 and 0 <= j < 27 and 0 <= k < 27
    post: _
    """
    isa = "aarch64" if a64 else "x86"
    lo, hi = shard(27)
    if not (lo <= i < hi):
        return True
    n = len(VOCAB[isa])
    a, b, c = pick(i, 27), pick(j, 27), pick(k, 27)
    if a >= n or b >= n or c >= n or c != (a + b) % n:
        return True        # third instruction determined by the first two: all ordered pairs, varied tails
    ok, nt, sample = native(_real_pairs_concrete, isa, a, b, c)
    return verdict(ok, nontrivial=nt, sample=sample)


CELLS = {
    "raw3_x86": {"fn": raw3_x86, "bound": "n=3, 1 read + 1 write per instruction, all 203 register coincidence patterns x write kind (dst / read-modify-write) per instruction x {64-bit, 32-bit alias reads}",
                 "budget": {"quick": 170, "thorough": 600}, "shards": 15},
    "raw3_a64": {"fn": raw3_a64, "tiers": ("thorough",), "bound": "same on AArch64 (x/w aliases)", "budget": {"thorough": 600}, "shards": 15},
    "raw4_x86": {"fn": raw4_x86, "bound": "n=4, all Bell(8)=4140 patterns x write kind of the two middle instructions", "budget": {"quick": 170, "thorough": 900}, "shards": 13},
    "raw3_two_reads": {"fn": raw3_two_reads, "tiers": ("thorough",), "bound": "n=3, 2 reads + 1 write per instruction, all Bell(9)=21147 patterns", "budget": {"thorough": 1500}, "shards": 52},
    "raw_multi_dest": {"fn": raw_multi_dest, "bound": "producer writing two registers (two destinations / data register + written-back base), an instruction that may overwrite either, a consumer that may read either: all coincidence patterns of 5 slots, both ISAs", "budget": {"quick": 150, "thorough": 300}, "shards": 5},
    "raw_flags": {"fn": raw_flags, "bound": "n=3, flag read/write bits per instruction, flag dependencies on/off, same/different flag, with/without a register chain, both ISAs (1024 cases)",
                  "budget": {"quick": 170, "thorough": 600}, "shards": 4},
    "raw_mem_a64": {"fn": raw_mem_a64, "bound": "producer / memory instruction (base, optional index, data register; load or store; plain, pre- or post-indexed) / consumer; all coincidence patterns of the 5 register slots",
                    "budget": {"quick": 170, "thorough": 600}, "shards": 5},
    "raw_mem_x86": {"fn": raw_mem_x86, "bound": "same without write-back on x86", "budget": {"quick": 170, "thorough": 600}, "shards": 5},
    "raw_weights": {"fn": raw_weights, "bound": "edge weights: all ints 0<=wo<=lat<=100, p_index_latency 0..20, with/without load stage (traced, numbers symbolic)", "budget": {"quick": 120, "thorough": 300}},
    "real_roles": {"fn": real_roles, "bound": "curated vocabulary (23 x86 + 27 AArch64 instructions with architecturally known roles) parsed by the real parsers and assigned by the real isa/x86.yml / isa/aarch64.yml", "budget": {"quick": 120, "thorough": 300}},
    "real_pairs": {"fn": real_pairs, "bound": "3-instruction kernels over all ordered pairs of the vocabulary (third = (i+j) mod n): DG edges = RAW over the architectural roles", "budget": {"quick": 170, "thorough": 600}, "shards": 9},
    "roles": {"fn": roles, "bound": "assign_src_dst on a synthetic ISA entry: 1-3 operands, every role combination (TT/TF/FT/FF per operand), hidden flag operand with each role, zero idiom x equal operands, entry absent (defaults), memory operand at each position with/without own entry (register-form fall-back), AArch64 pre/post-index; both ISAs",
              "budget": {"quick": 170, "thorough": 900}, "shards": 16},
}

META = {
    "functions": ["KernelDG.create_DG", "KernelDG.find_depending", "KernelDG.is_read", "KernelDG.is_written", "ISASemantics.assign_src_dst",
                  "ISASemantics._apply_found_ISA_data", "_get_regular_source_operands", "_get_regular_destination_operands", "_has_load", "_has_store",
                  "ISASemantics.substitute_mem_address", "MachineModel.get_instruction/_match_operands (register and wildcard-memory entries)"],
    "bounds": "kernels of 3-4 instructions; register identity by equality pattern; structure decided by the solver, the real code runs natively on each (fully concrete) structure; raw_weights is traced with symbolic latencies",
    "outside": "instructions with more than one register destination plus write-back read by the same consumer (weight ambiguous); instructions outside the 50-entry curated vocabulary; forms without ISA entry whose architectural roles differ from the documented default rule (neg, bswap, cbz, ld1 lists ...); n > 4",
    "assumptions": ["alias relation itself is decided in C12; names per class are distinct architectural registers", "reference RAW relation vp.synth.ref_raw"],
}
