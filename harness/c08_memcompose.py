"""C08 - memory-operand forms compose register-form data with load/store data.

Real code (traced, all table numbers symbolic ints (pressures become exact rationals)): ArchSemantics.assign_tp_lt L222-393,
MachineModel.get_load_throughput / get_store_throughput / get_load_latency,
ISASemantics.substitute_mem_address / assign_src_dst, average_port_pressure, on a synthetic
in-memory model.  Oracle: model-independent recomputation from the harness parameters.
"""
from osaca.parser.immediate import ImmediateOperand
from osaca.parser.instruction_form import InstructionForm
from osaca.parser.memory import MemoryOperand
from osaca.parser.register import RegisterOperand
from osaca.semantics import INSTR_FLAGS

from vp.api import verdict, skip, shard
from vp.symx import pick
from vp.synth import mk_model, mk_sem, add_entry

PORTS = ["0", "1", "2", "3"]
W = "*"


def _avg(uops):
    p = [0, 0, 0, 0]
    for c, ports in uops:
        for q in ports:
            p[PORTS.index(q)] = p[PORTS.index(q)] + c / len(ports)
    return p


def _x86_case(role, shape, row_present, typed_row, vec, nums, mult_present, suffix=False, other_only=False, pair=0):
    (c_reg, tp_reg, lat_reg, c_ld, c_ldt, c_lddef, c_st, c_stt, c_stdef, L, m_ld, m_st) = nums
    rt = "xmm" if vec else "gpr"
    other = "gpr" if vec else "xmm"
    model = mk_model("x86", ports=list(PORTS))
    isa_model = mk_model("x86")
    # addressing shape of the instruction's memory operand
    base = RegisterOperand(name="rax")
    if shape == 0:
        mem = MemoryOperand(base=base)
        row_shape = dict(base="gpr", offset=None, index=None, scale=1)
        miss_shape = dict(base="gpr", offset="imd", index=None, scale=1)
    elif shape == 1:
        mem = MemoryOperand(base=base, offset=ImmediateOperand(value=64))
        row_shape = dict(base="gpr", offset="imd", index=None, scale=1)
        miss_shape = dict(base="gpr", offset=None, index=None, scale=1)
    else:
        mem = MemoryOperand(base=base, offset=ImmediateOperand(value=64), index=RegisterOperand(name="rsi"), scale=4)
        row_shape = dict(base="gpr", offset="imd", index="gpr", scale=8)
        miss_shape = dict(base="gpr", offset="imd", index="gpr", scale=1)
    # tables: a row for another addressing shape first (must never be chosen), then rows for this
    # shape: either all declare a register type (other type first, then ours) or none does
    ld_rows = [(MemoryOperand(dst=(rt if typed_row else None), **miss_shape), [[c_ld + 7, "2"]])]
    st_rows = [(MemoryOperand(src=(rt if typed_row else None), **miss_shape), [[c_st + 7, "3"]])]
    if row_present:
        if typed_row:
            ld_rows.append((MemoryOperand(dst=other, **row_shape), [[c_ld + 3, "23"]]))
            st_rows.append((MemoryOperand(src=other, **row_shape), [[c_st + 3, "3"]]))
            if not other_only:
                ld_rows.append((MemoryOperand(dst=rt, **row_shape), [[c_ldt, "2"]]))
                st_rows.append((MemoryOperand(src=rt, **row_shape), [[c_stt, "3"]]))
        else:
            ld_rows.append((MemoryOperand(dst=None, **row_shape), [[c_ld, "23"]]))
            st_rows.append((MemoryOperand(src=None, **row_shape), [[c_st, "3"]]))
    model._data["load_throughput"] = ld_rows
    model._data["store_throughput"] = st_rows
    model._data["load_throughput_default"] = [[c_lddef, "23"]]
    model._data["store_throughput_default"] = [[c_stdef, "3"]]
    model._data["load_latency"] = {rt: L, other: L + 5}
    if mult_present:
        model._data["load_throughput_multiplier"] = {rt: m_ld, other: m_ld + 1}
        model._data["store_throughput_multiplier"] = {rt: m_st, other: m_st + 1}
    reg_uops = [[c_reg, "01"]]
    add_entry(model, "op", [RegisterOperand(name=rt), RegisterOperand(name=rt)], tp=tp_reg, lat=lat_reg, uops=reg_uops)
    r = RegisterOperand(name="xmm3" if vec else "rbx")
    # pair: a second instruction with a data register of the OTHER type on the textually identical
    # address, analysed with the same model object before (pair=2) or after (pair=1) the first
    reg_uops_o = [[c_reg + 1, "01"]]
    if pair:
        add_entry(model, "op", [RegisterOperand(name=other), RegisterOperand(name=other)], tp=tp_reg + 1, lat=lat_reg + 2, uops=reg_uops_o)
    ro_ = RegisterOperand(name="rbx" if vec else "xmm3")
    import copy as _copy
    mem_o = _copy.deepcopy(mem)
    if role == 0:       # load:  op mem, reg
        ops = [mem, r]
        ops_o = [mem_o, ro_]
    elif role == 1:     # store: op reg, mem
        ops = [r, mem]
        ops_o = [ro_, mem_o]
    else:               # read-modify-write: op reg, mem with mem read and written
        ops = [r, mem]
        ops_o = [ro_, mem_o]
        add_entry(isa_model, "op", [RegisterOperand(name=rt, source=True), MemoryOperand(base=W, offset=W, index=W, scale=W, source=True, destination=True)])
        if pair:
            add_entry(isa_model, "op", [RegisterOperand(name=other, source=True), MemoryOperand(base=W, offset=W, index=W, scale=W, source=True, destination=True)])
    sem = mk_sem(model, isa_model)
    # with suffix: the instruction is written with an AT&T size suffix while the register form
    # (and the ISA entry) are stored under the suffix-less name
    f = InstructionForm(mnemonic="opq" if suffix else "op", operands=ops, line="op", line_number=1)
    f.flags = []
    # a second, unknown instruction must not influence / be influenced
    g = InstructionForm(mnemonic="nosuch", operands=[RegisterOperand(name="rcx"), MemoryOperand(base=RegisterOperand(name="rdx"))], line="nosuch", line_number=2)
    g.flags = []
    h = None
    if pair:
        h = InstructionForm(mnemonic="opq" if suffix else "op", operands=ops_o, line="op", line_number=3)
        h.flags = []
    sem.add_semantics([f, g] if not pair else ([f, h, g] if pair == 1 else [h, f, g]))
    # ---- oracle
    has_ld = role in (0, 2)
    has_st = role in (1, 2)
    ld_u, st_u = [], []
    if has_ld:
        ld_u = ([[c_ldt, "2"]] if typed_row else [[c_ld, "23"]]) if row_present else [[c_lddef, "23"]]
    if has_st:
        st_u = ([[c_stt, "3"]] if typed_row else [[c_st, "3"]]) if row_present else [[c_stdef, "3"]]
        if other_only:
            # the store table only has rows for ANOTHER register type: none applies, the default does
            st_u = [[c_stdef, "3"]]
    if other_only and has_ld:
        return None        # loads: which row applies when only other-typed rows exist is not determined by the statement
    ml = m_ld if mult_present else 1
    ms = m_st if mult_present else 1
    p_reg, p_ld, p_st = _avg(reg_uops), _avg(ld_u), _avg(st_u)
    data = [ml * a + ms * b for a, b in zip(p_ld, p_st)]
    want_p = [a + b for a, b in zip(p_reg, data)]
    want_tp = max(max(data), tp_reg)
    want_lat = lat_reg + (L if has_ld else 0)
    ok = list(f.port_pressure) == want_p
    ok = ok and f.throughput == want_tp and f.latency == want_lat and f.latency_wo_load == lat_reg
    ok = ok and list(f.port_uops) == reg_uops + ld_u + st_u
    ok = ok and INSTR_FLAGS.TP_UNKWN not in f.flags and INSTR_FLAGS.LT_UNKWN not in f.flags
    ok = ok and (INSTR_FLAGS.HAS_LD in f.flags) == has_ld and (INSTR_FLAGS.HAS_ST in f.flags) == has_st
    if pair:
        ld_o, st_o = [], []
        if has_ld:
            ld_o = ([[c_ld + 3, "23"]] if typed_row else [[c_ld, "23"]]) if row_present else [[c_lddef, "23"]]
        if has_st:
            st_o = ([[c_st + 3, "3"]] if typed_row else [[c_st, "3"]]) if row_present else [[c_stdef, "3"]]
        mlo = m_ld + 1 if mult_present else 1
        mso = m_st + 1 if mult_present else 1
        p_rego, p_ldo, p_sto = _avg(reg_uops_o), _avg(ld_o), _avg(st_o)
        data_o = [mlo * a + mso * b for a, b in zip(p_ldo, p_sto)]
        ok = ok and list(h.port_pressure) == [a + b for a, b in zip(p_rego, data_o)]
        ok = ok and h.throughput == max(max(data_o), tp_reg + 1) and h.latency == lat_reg + 2 + (L + 5 if has_ld else 0) and h.latency_wo_load == lat_reg + 2
        ok = ok and list(h.port_uops) == reg_uops_o + ld_o + st_o
    # unknown neighbour
    ok = ok and INSTR_FLAGS.TP_UNKWN in g.flags and INSTR_FLAGS.LT_UNKWN in g.flags
    ok = ok and list(g.port_pressure) == [0.0] * 4 and g.latency == 0 and g.throughput == 0
    return ok


def x86_compose(role: int, shape: int, row_present: bool, typed_row: bool, vec: bool, mult_present: bool, suffix: bool,
                c_reg: int, tp_reg: int, lat_reg: int, c_sel_ld: int, c_sel_st: int, L: int, m_ld: int) -> bool:
    """
    pre: 0 <= role <= 2 and 0 <= shape <= 2
    pre: 0 <= c_reg <= 16 and 0 <= tp_reg <= 16 and 0 <= lat_reg <= 64 and 0 <= c_sel_ld <= 16
    pre: 0 <= c_sel_st <= 16 and 0 <= L <= 64 and 0 <= m_ld <= 4
    post: _
    """
    # c_sel_ld / c_sel_st: cycles of the load / store row that has to be selected (symbolic);
    # every other row carries a distinct concrete marker value
    c_ld = c_ldt = c_lddef = 11.0
    c_st = c_stt = c_stdef = 13.0
    m_st = 1.5
    if skip(locals()):
        return True
    lo, hi = shard(9)
    if not (lo <= role * 3 + shape < hi):
        return True
    ro, sh = pick(role, 3), pick(shape, 3)
    rp, tr, ve, mp = (True if x else False for x in (row_present, typed_row, vec, mult_present))
    if not rp and tr:
        return True
    if rp and tr:
        c_ldt, c_stt = c_sel_ld, c_sel_st
        c_ld, c_st, c_lddef, c_stdef = 11.0, 13.0, 17.0, 19.0
    elif rp:
        c_ld, c_st = c_sel_ld, c_sel_st
        c_ldt, c_stt, c_lddef, c_stdef = 11.0, 13.0, 17.0, 19.0
    else:
        c_lddef, c_stdef = c_sel_ld, c_sel_st
        c_ld, c_st, c_ldt, c_stt = 11.0, 13.0, 17.0, 19.0
    ok = _x86_case(ro, sh, rp, tr, ve, (c_reg, tp_reg, lat_reg, c_ld, c_ldt, c_lddef, c_st, c_stt, c_stdef, L, m_ld, m_st), mp, True if suffix else False)
    if ok and ro == 1 and rp and tr and not suffix:
        # same store with a table that only declares rows for the other register type
        ok = _x86_case(ro, sh, rp, tr, ve, (c_reg, tp_reg, lat_reg, 11.0, 17.0, 23.0, 13.0, 19.0, c_sel_st, L, m_ld, m_st), mp, False, other_only=True)
    return verdict(ok, nontrivial=True, sample=lambda: {"suffix": suffix, "role": ["load", "store", "rmw"][ro], "shape": sh, "row_present": rp, "typed_row": tr, "vec": ve,
                                                       "mult": mp, "c_reg": c_reg, "tp_reg": tp_reg, "lat_reg": lat_reg, "c_ld": c_ld, "L": L})


def x86_pair(role: int, shape: int, row_present: bool, typed_row: bool, vec: bool, mult_present: bool, first: bool, c_sel_ld: int, c_sel_st: int) -> bool:
    """
    pre: 0 <= role <= 2 and 0 <= shape <= 2 and 0 <= c_sel_ld <= 16 and 0 <= c_sel_st <= 16
    post: _
    """
    # two memory-composed instructions with data registers of different types on the textually identical
    # address, analysed with ONE model object, in both orders: each gets the rows of its own register type
    if skip(locals()):
        return True
    lo, hi = shard(9)
    if not (lo <= role * 3 + shape < hi):
        return True
    ro, sh = pick(role, 3), pick(shape, 3)
    rp, tr, ve, mp = (True if x else False for x in (row_present, typed_row, vec, mult_present))
    if not rp and tr:
        return True
    c_ld, c_st, c_ldt, c_stt, c_lddef, c_stdef = 11.0, 13.0, 17.0, 19.0, 23.0, 29.0
    if rp and tr:
        c_ldt, c_stt = c_sel_ld, c_sel_st
    elif rp:
        c_ld, c_st = c_sel_ld, c_sel_st
    else:
        c_lddef, c_stdef = c_sel_ld, c_sel_st
    ok = _x86_case(ro, sh, rp, tr, ve, (2, 1, 3, c_ld, c_ldt, c_lddef, c_st, c_stt, c_stdef, 4, 2, 1.5), mp, False, pair=1 if first else 2)
    return verdict(ok, nontrivial=True, sample=lambda: {"role": ["load", "store", "rmw"][ro], "shape": sh, "row_present": rp, "typed_row": tr, "vec": ve, "mult": mp,
                                                       "order": "this type first" if first else "other type first", "c_sel_ld": c_sel_ld, "c_sel_st": c_sel_st})


def _a64_case(mode, is_store, row_present, nums, suffix=False):
    """AArch64: ldr/str with plain, pre- or post-indexed addressing; register form 'op x, x'."""
    (c_reg, tp_reg, lat_reg, c_ld, c_lddef, c_st, c_stdef, L) = nums
    model = mk_model("aarch64", ports=list(PORTS))
    isa_model = mk_model("aarch64")
    base = RegisterOperand(prefix="x", name="1")
    mem = MemoryOperand(base=base, offset=ImmediateOperand(value=16) if mode != 2 else None,
                        pre_indexed=(mode == 1), post_indexed={"value": 16} if mode == 2 else False)
    row_shape = dict(base="x", offset="imd" if mode != 2 else None, index=None, scale=1, pre_indexed=(mode == 1), post_indexed=(mode == 2))
    if row_present:
        model._data["load_throughput"] = [(MemoryOperand(dst=None, **row_shape), [[c_ld, "23"]])]
        model._data["store_throughput"] = [(MemoryOperand(src="x", **row_shape), [[c_st, "3"]])]
    model._data["load_throughput_default"] = [[c_lddef, "23"]]
    model._data["store_throughput_default"] = [[c_stdef, "3"]]
    model._data["load_latency"] = {"x": L, "d": L + 5}
    reg_uops = [[c_reg, "01"]]
    add_entry(model, "op", [RegisterOperand(prefix="x"), RegisterOperand(prefix="x")], tp=tp_reg, lat=lat_reg, uops=reg_uops)
    r = RegisterOperand(prefix="x", name="3")
    if is_store:
        # AArch64 store syntax: str x3, [mem]: data register first, memory second and written
        ops = [r, mem]
        add_entry(isa_model, "op", [RegisterOperand(prefix="x", source=True), MemoryOperand(base=W, offset=W, index=W, scale=W, pre_indexed=W, post_indexed=W, destination=True)])
    else:
        ops = [r, mem]   # default roles: first operand destination, memory source
    sem = mk_sem(model, isa_model)
    f = InstructionForm(mnemonic="op.s" if suffix else "op", operands=ops, line="op", line_number=1)
    f.flags = []
    sem.add_semantics([f])
    ld_u = ([[c_ld, "23"]] if row_present else [[c_lddef, "23"]]) if not is_store else []
    st_u = ([[c_st, "3"]] if row_present else [[c_stdef, "3"]]) if is_store else []
    p_reg, p_ld, p_st = _avg(reg_uops), _avg(ld_u), _avg(st_u)
    data = [a + b for a, b in zip(p_ld, p_st)]
    want_p = [a + b for a, b in zip(p_reg, data)]
    ok = list(f.port_pressure) == want_p and f.throughput == max(max(data), tp_reg)
    ok = ok and f.latency == lat_reg + (0 if is_store else L) and f.latency_wo_load == lat_reg
    ok = ok and list(f.port_uops) == reg_uops + ld_u + st_u
    ok = ok and INSTR_FLAGS.TP_UNKWN not in f.flags and INSTR_FLAGS.LT_UNKWN not in f.flags
    return ok


def a64_compose(mode: int, is_store: bool, row_present: bool, suffix: bool, c_reg: int, tp_reg: int, lat_reg: int,
                c_sel: int, L: int) -> bool:
    """
    pre: 0 <= mode <= 2
    pre: 0 <= c_reg <= 16 and 0 <= tp_reg <= 16 and 0 <= lat_reg <= 64 and 0 <= c_sel <= 16 and 0 <= L <= 64
    post: _
    """
    c_ld, c_st, c_lddef, c_stdef = (c_sel, c_sel, 17.0, 19.0) if row_present else (11.0, 13.0, c_sel, c_sel)
    if skip(locals()):
        return True
    mo = pick(mode, 3)
    ok = _a64_case(mo, True if is_store else False, True if row_present else False, (c_reg, tp_reg, lat_reg, c_ld, c_lddef, c_st, c_stdef, L), True if suffix else False)
    return verdict(ok, nontrivial=True, sample=lambda: {"suffix": suffix, "mode": ["offset", "pre", "post"][mo], "store": is_store, "row_present": row_present, "c_reg": c_reg, "L": L})


CELLS = {
    "x86_pair": {"fn": x86_pair, "bound": "two memory-composed instructions (load / store / read-modify-write) with data registers of different types on the textually identical address, analysed with one model object in both orders, over the same table layouts (typed / untyped / default rows, 3 addressing shapes, multipliers); selected row cycles symbolic ints 0..16, other numbers fixed",
                 "budget": {"quick": 400, "thorough": 600}, "shards": 9},
    "x86_compose": {"fn": x86_compose, "bound": "role {load, store, read-modify-write} x addressing shape {(b), d(b), d(b,i,4)} x {matching row present, only default} x {register-type-specific row present} x {gpr, xmm} x {multipliers present} x {mnemonic with/without size suffix}; register-form cycles/throughput/latency, the selected load and store rows' cycles, load latency and load multiplier symbolic ints (pressures become exact rationals), all other rows distinct concrete markers",
                    "budget": {"quick": 400, "thorough": 900}, "shards": 9},
    "a64_compose": {"fn": a64_compose, "bound": "AArch64 load / store with offset, pre- and post-indexed addressing x row present; register-form numbers, selected row cycles and load latency symbolic ints (pressures become exact rationals)", "budget": {"quick": 170, "thorough": 600}},
}

META = {
    "functions": ["ArchSemantics.assign_tp_lt (memory composition path and unknown fall-back)", "ArchSemantics.add_semantics", "MachineModel.get_load_throughput", "get_store_throughput", "get_load_latency",
                  "get_store_latency", "ISASemantics.substitute_mem_address", "ISASemantics.assign_src_dst", "MachineModel.average_port_pressure", "MachineModel.get_instruction with the memory wildcard"],
    "bounds": "one memory instruction + one unknown neighbour on a synthetic 4-port model; every listed structural combination; all table numbers real-valued symbolic within the stated ranges",
    "outside": "shipped models x curated vocabulary (nothing symbolic there); hidden_loads; instructions with two memory operands",
    "assumptions": ["real-based float model: the subject is which row/latency is selected and how vectors are combined, not IEEE rounding"],
}
