"""Nondeterministic stand-ins for the process environment of KernelDG.check_for_loopcarried_dep
(multiprocessing.Manager / Process / cpu_count, time, os.kill), installed by rebinding the module
globals of osaca.semantics.kernel_dg inside the check process.

Contract assumed for the real facilities (validated concretely by the 'real_processes' cell):
 * Manager().list() is a shared list; a worker's dst_list.extend(chunk) arrives atomically and in
   the worker's own order; chunks of different workers interleave arbitrarily.
 * Process.join() returns after the worker has published everything; a killed worker has
   published some prefix of its chunks.
"""
import osaca.semantics.kernel_dg as kdg


class Env:
    """One environment instance per harness call."""

    def __init__(self, ncores, order=None, clock=None, finish=None, prefix=None):
        self.ncores = ncores
        self.order = order            # permutation of worker indices: publication order
        self.clock = clock            # Clock or None
        self.finish = finish          # per worker completion instant (None: finishes at once)
        self.prefix = prefix          # per worker number of chunks published if killed
        self.procs = []
        self.shared = None
        self.killed = []
        self.joined = []
        self.log = []

    # ---- module-level replacements
    def cpu_count(self):
        return self.ncores

    def Manager(self):
        return _Manager(self)

    def Process(self, target=None, args=()):
        p = _Process(self, len(self.procs), target, args)
        self.procs.append(p)
        return p

    def materialise(self):
        """Content of the shared list when the parent copies it."""
        out = []
        idxs = list(range(len(self.procs)))
        if self.order is not None:
            idxs = [i for i in self.order if i < len(self.procs)] + [i for i in idxs if i not in self.order]
        for i in idxs:
            p = self.procs[i]
            if not p.started:
                continue
            chunks = p.chunks()
            if p.was_killed:
                k = self.prefix[i] if self.prefix is not None else 0
                chunks = chunks[:k]
            for c in chunks:
                out.extend(c)
        return out


class _Manager:
    def __init__(self, env):
        self.env = env

    def __enter__(self):
        return self

    def __exit__(self, *a):
        return False

    def list(self):
        self.env.shared = _SharedList(self.env)
        return self.env.shared


class _SharedList:
    """Proxy whose content is decided when the parent reads it (list(proxy))."""

    def __init__(self, env):
        self.env = env

    def __iter__(self):
        return iter(self.env.materialise())

    def __len__(self):
        return len(self.env.materialise())

    def extend(self, items):      # only used by real workers; the stub computes chunks itself
        raise RuntimeError("stub shared list is filled by the environment")


class _Process:
    def __init__(self, env, idx, target, args):
        self.env, self.idx, self.target, self.args = env, idx, target, args
        self.pid = 1000 + idx
        self.started = False
        self.was_killed = False
        self.njoined = 0
        self._chunks = None

    def start(self):
        self.started = True

    def chunks(self):
        """The worker's publications: one chunk per root instruction (dst_list.extend per
        instruction in KernelDG._extend_path), computed by running the REAL target."""
        if self._chunks is None:
            dst, section, dg, offset = self.args
            out = []
            for instr in section:
                rec = _Recorder()
                self.target(rec, [instr], dg, offset)
                out.append(rec.items)
            self._chunks = out
        return self._chunks

    def kill(self):
        """Process.kill(): SIGKILL, cannot be ignored"""
        self.env.killed.append((self.idx, self.is_alive()))
        self.was_killed = True

    def terminate(self):
        """Process.terminate(): SIGTERM - a worker that ignores or handles SIGTERM keeps running
        (env.term_ignored, chosen by the solver)"""
        if getattr(self.env, "term_ignored", False):
            self.env.log.append(("terminate-ignored", self.idx))
            return
        self.env.killed.append((self.idx, self.is_alive()))
        self.was_killed = True

    def is_alive(self):
        if not self.started or self.was_killed:
            return False
        if self.env.finish is None:
            return False
        now = self.env.clock.now if self.env.clock is not None else 0
        return now < self.env.finish[self.idx]

    def join(self):
        self.njoined += 1
        self.env.joined.append(self.idx)
        # joining a live, un-killed worker waits for its completion
        if self.env.clock is not None and self.env.finish is not None and not self.was_killed:
            if self.env.clock.now < self.env.finish[self.idx]:
                self.env.clock.now = self.env.finish[self.idx]


class _Recorder:
    def __init__(self):
        self.items = []

    def extend(self, items):
        self.items.extend(items)


class Clock:
    """time stub: non-decreasing instants; every time() call advances by the next symbolic
    increment (>= 0), every sleep() by the next symbolic amount (>= 1)."""

    def __init__(self, incs, sleeps):
        self.now = 0
        self.incs = list(incs)
        self.sleeps = list(sleeps)
        self.ntime = 0
        self.nsleep = 0

    def time(self):
        d = self.incs[self.ntime] if self.ntime < len(self.incs) else 1
        self.ntime += 1
        self.now = self.now + d
        return self.now

    def sleep(self, secs):
        d = self.sleeps[self.nsleep] if self.nsleep < len(self.sleeps) else 1
        self.nsleep += 1
        self.now = self.now + d


class _OS:
    def __init__(self, env):
        self.env = env

    def kill(self, pid, sig):
        for p in self.env.procs:
            if p.pid == pid:
                self.env.killed.append((p.idx, p.is_alive()))
                p.was_killed = True


class installed:
    """with installed(env): ...   rebinds kernel_dg.Manager/Process/cpu_count/time/os"""

    def __init__(self, env):
        self.env = env

    def __enter__(self):
        self.saved = (kdg.Manager, kdg.Process, kdg.cpu_count, kdg.time, kdg.os)
        kdg.Manager, kdg.Process, kdg.cpu_count = self.env.Manager, self.env.Process, self.env.cpu_count
        if self.env.clock is not None:
            kdg.time = self.env.clock
        kdg.os = _OS(self.env)
        return self.env

    def __exit__(self, *a):
        kdg.Manager, kdg.Process, kdg.cpu_count, kdg.time, kdg.os = self.saved
        return False
