"""Shared machinery for C01/C02: synthetic port models, the real balancer, Hall/optimum oracles."""
import copy
import itertools

from osaca.semantics import INSTR_FLAGS, ArchSemantics

from vp.synth import mk_model, mk_sem, iform

PORTS3 = ["0", "1", "2"]
PORTS3M = ["0", "1DV", "2"]      # one multi-character port name (must be given in list form)


def subsets(nports):
    """non-empty subsets of range(nports) as tuples, fixed order"""
    out = []
    for mask in range(1, 1 << nports):
        out.append(tuple(i for i in range(nports) if mask >> i & 1))
    return out


def uop(ports, cyc, idxs):
    names = [ports[i] for i in idxs]
    if all(len(n) == 1 for n in names):
        return [cyc, "".join(names)]
    return [cyc, names]


def build_kernel(ports, instrs):
    """instrs: list of uop lists [[cyc, idxs], ...]; returns (sem, kernel) with uniform pressure
    assigned through the real average_port_pressure."""
    model = mk_model("x86", ports=list(ports))
    sem = mk_sem(model)
    kernel = []
    for ln, us in enumerate(instrs):
        uops = [uop(ports, c, ix) for c, ix in us]
        f = iform(ln + 1, lat=1, tp=1.0, uops=uops)
        f.port_pressure = model.average_port_pressure(uops)
        f.port_uops = uops
        kernel.append(f)
    return sem, model, kernel


def hall_ok(nports, us, p, tol, subset_clause=True):
    """Feasible fractional assignment of micro-ops us=[(cyc, idxs)] with pressure vector p."""
    allowed = set()
    for c, ix in us:
        allowed |= set(ix)
    for q in range(nports):
        if p[q] < -tol:
            return False
        if q not in allowed and abs(p[q]) > tol:
            return False
    total = sum(c for c, _ in us)
    if abs(sum(p) - total) > tol:
        return False
    if not subset_clause:
        return True
    for mask in range(1, 1 << nports):
        S = set(i for i in range(nports) if mask >> i & 1)
        confined = sum(c for c, ix in us if set(ix) <= S)
        if sum(p[q] for q in S) < confined - tol:
            return False
    return True


def hall_range_ok(nports, us, p, tol, lo, hi, subset_clause=True):
    """As hall_ok when some (unknown which) micro-ops are scaled by a factor in [lo, hi], lo <= 1 <= hi:
    sign and support exactly, total within [lo*total, hi*total], every port set carries at least lo
    times the cycles confined to it."""
    allowed = set()
    for c, ix in us:
        allowed |= set(ix)
    for q in range(nports):
        if p[q] < -tol or (q not in allowed and abs(p[q]) > tol):
            return False
    total = sum(c for c, _ in us)
    if not (lo * total - tol <= sum(p) <= hi * total + tol):
        return False
    if not subset_clause:
        return True
    for mask in range(1, 1 << nports):
        S = set(i for i in range(nports) if mask >> i & 1)
        confined = sum(c for c, ix in us if set(ix) <= S)
        if sum(p[q] for q in S) < lo * confined - tol:
            return False
    return True


def exact_optimum(nports, all_uops):
    """max over non-empty port subsets S of (cycles confined to S) / |S|  (Hall / LP duality)."""
    best = 0.0
    for mask in range(1, 1 << nports):
        S = set(i for i in range(nports) if mask >> i & 1)
        confined = sum(c for c, ix in all_uops if set(ix) <= S)
        best = max(best, confined / len(S))
    return best


def totals_ok(kernel, sums):
    """per-port totals = rounded column sums over lines with non-zero throughput"""
    rows = [k.port_pressure for k in kernel if k.throughput != 0.0]
    if not rows:
        return sums == []
    want = [round(sum(col), 2) for col in zip(*rows)]
    return list(sums) == want


def run_opt(ports, instrs, passes):
    sem, model, kernel = build_kernel(ports, instrs)
    uniform = ArchSemantics.get_throughput_sum(kernel)
    for _ in range(passes):
        sem.assign_optimal_throughput(kernel)
    return sem, kernel, uniform, ArchSemantics.get_throughput_sum(kernel)
