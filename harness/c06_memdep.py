"""C06 - store->load dependencies through provably equal addresses (x86 and AArch64).

Template lines are parsed once, natively, by the real parsers; per path they are deep-copied
and their numeric fields (displacements, immediates, post-index amounts) replaced by symbolic
ints.  Real code under the tracer: ISASemantics.assign_src_dst and get_reg_changes on the
REAL isa/x86.yml / isa/aarch64.yml (loaded without pickle cache, incl. exec(operation)),
KernelDG.create_DG, find_depending (memory branch), _update_reg_changes, is_memload,
is_memstore.  Oracle: integer address difference.
"""
import copy

from osaca.parser import ParserAArch64, ParserX86ATT
from osaca.parser.immediate import ImmediateOperand
from osaca.parser.memory import MemoryOperand
from osaca.semantics import MachineModel, ISASemantics, INSTR_FLAGS

from vp.api import verdict, skip, shard
from vp.symx import pick, NoTracing
from vp.synth import DG, NativeParser, PX, PA, mk_model


def _load_isa(isa):
    """Real ISA database, parsed from the YAML in /repo (pickle caches bypassed so the tables
    always come from the current working tree and the current loader)."""
    import osaca.utils as u
    gc, wc = MachineModel._get_cached, MachineModel._write_in_cache
    rc = dict(MachineModel._runtime_cache)
    MachineModel._get_cached = lambda self, p: False
    MachineModel._write_in_cache = lambda self, p: None
    try:
        s = ISASemantics(isa, path_to_yaml=u.find_datafile("isa/" + isa + ".yml"))
    finally:
        MachineModel._get_cached, MachineModel._write_in_cache = gc, wc
        MachineModel._runtime_cache.clear()
        MachineModel._runtime_cache.update(rc)
    return s


SEM = {"x86": _load_isa("x86"), "aarch64": _load_isa("aarch64")}
_T = {}


def inst(isa, line, ln, disp=None, imm=None, post=None):
    key = (isa, line)
    if key not in _T:
        with NoTracing():
            _T[key] = (PX if isa == "x86" else PA).parse_line(line, 0)
    with NoTracing():
        f = copy.deepcopy(_T[key])
    f.line_number = ln
    for o in f.operands:
        if isinstance(o, MemoryOperand):
            if disp is not None:
                o.offset = ImmediateOperand(value=disp)
            if post is not None:
                o.post_indexed = {"value": post}
        elif isinstance(o, ImmediateOperand) and imm is not None:
            o.value = imm
    return f


def run(isa, kernel, lat_store, fwd):
    sem = SEM[isa]
    for f in kernel:
        f.flags = []
        sem.assign_src_dst(f)
        f.latency = lat_store if f.line_number == 1 else 1
        f.latency_wo_load = f.latency
        f.throughput = 1.0
        f.latency_cp = 0
        f.latency_lcd = 0
        if INSTR_FLAGS.HAS_LD in f.flags:
            f.flags.append(INSTR_FLAGS.LD)  # no separate load node (as for directly found forms)
    model = mk_model(isa, ports=["0"], store_to_load_forward_latency=fwd)
    g = DG(kernel, NativeParser(PX if isa == "x86" else PA), model=model, sem=sem)
    return {(u, v): w for u, v, w in g.dg.edges(data="latency")}


def check(e, first, last, expect_dep, lat_store, fwd):
    has = (first, last) in e
    if expect_dep:
        return has and e[(first, last)] == lat_store + fwd
    return not has


# ---------------------------------------------------------------- x86

X86_BUMPS = ["none", "addq $1, %rax", "subq $1, %rax", "incq %rax", "decq %rax",
             "addq $1, %rsi", "incq %rsi", "addq $1, %rbx"]


def _x86_bump_delta(kind, imm):
    """(delta on rax, delta on rsi)"""
    if kind == 1:
        return imm, 0
    if kind == 2:
        return -imm, 0
    if kind == 3:
        return 1, 0
    if kind == 4:
        return -1, 0
    if kind == 5:
        return 0, imm
    if kind == 6:
        return 0, 1
    return 0, 0


def x86_base_disp(d1: int, d2: int, imm: int, kind: int, samebase: bool, lat: int, fwd: int) -> bool:
    """
    pre: 0 <= kind < 8 and 0 <= lat <= 20 and 0 <= fwd <= 20
    post: _
    """
    if skip(locals()):
        return True
    lo, hi = shard(8)
    if not (lo <= kind < hi):
        return True
    k = pick(kind, 8)
    ker = [inst("x86", "movq %rdx, 8(%rax)", 1, disp=d1)]
    if k:
        ker.append(inst("x86", X86_BUMPS[k], 2, imm=imm))
    ker.append(inst("x86", "movq 8(%rax), %rcx" if samebase else "movq 8(%rbx), %rcx", len(ker) + 1, disp=d2))
    e = run("x86", ker, lat, fwd)
    da, _ = _x86_bump_delta(k, imm)
    expect = bool(samebase) and (d2 + da - d1 == 0)
    return verdict(check(e, 1, len(ker), expect, lat, fwd), nontrivial=expect,
                   sample=lambda: {"d1": d1, "d2": d2, "imm": imm, "bump": X86_BUMPS[k], "samebase": samebase, "dep": expect})


def x86_nodisp(d2: int, imm: int, kind: int, store_has_disp: bool, d1: int) -> bool:
    """
    pre: 0 <= kind < 5
    post: _
    """
    # one side written without displacement: (%rax)
    if skip(locals()):
        return True
    k = pick(kind, 5)
    if store_has_disp:
        ker = [inst("x86", "movq %rdx, 8(%rax)", 1, disp=d1)]
    else:
        ker = [inst("x86", "movq %rdx, (%rax)", 1)]
    if k:
        ker.append(inst("x86", X86_BUMPS[k], 2, imm=imm))
    if store_has_disp:
        ker.append(inst("x86", "movq (%rax), %rcx", len(ker) + 1))
        delta = 0 - d1
    else:
        ker.append(inst("x86", "movq 8(%rax), %rcx", len(ker) + 1, disp=d2))
        delta = d2
    e = run("x86", ker, 3, 2)
    da, _ = _x86_bump_delta(k, imm)
    expect = delta + da == 0
    return verdict(check(e, 1, len(ker), expect, 3, 2), nontrivial=expect, sample=lambda: {"d1": d1, "d2": d2, "imm": imm, "bump": X86_BUMPS[k], "dep": expect})


def x86_index_scale(d1: int, d2: int, imm: int, kind: int, s1: int, s2: int, sameindex: bool) -> bool:
    """
    pre: 0 <= kind < 8 and 0 <= s1 < 4 and 0 <= s2 < 4
    post: _
    """
    if skip(locals()):
        return True
    lo, hi = shard(8)
    if not (lo <= kind < hi):
        return True
    k = pick(kind, 8)
    sc1, sc2 = [1, 2, 4, 8][pick(s1, 4)], [1, 2, 4, 8][pick(s2, 4)]
    st = inst("x86", "movq %rdx, 8(%rax,%rsi,4)", 1, disp=d1)
    st.operands[1].scale = sc1
    ker = [st]
    if k:
        ker.append(inst("x86", X86_BUMPS[k], 2, imm=imm))
    ld = inst("x86", "movq 8(%rax,%rsi,4), %rcx" if sameindex else "movq 8(%rax,%rdi,4), %rcx", len(ker) + 1, disp=d2)
    ld.operands[0].scale = sc2
    ker.append(ld)
    e = run("x86", ker, 4, 1)
    da, di = _x86_bump_delta(k, imm)
    expect = bool(sameindex) and sc1 == sc2 and (d2 + da + sc2 * di - d1 == 0)
    return verdict(check(e, 1, len(ker), expect, 4, 1), nontrivial=expect,
                   sample=lambda: {"d1": d1, "d2": d2, "imm": imm, "bump": X86_BUMPS[k], "scales": [sc1, sc2], "sameindex": sameindex, "dep": expect})


def x86_copy(d1: int, d2: int, imm: int, bump_copy: bool, load_via_copy: bool) -> bool:
    """
    post: _
    """
    # store via %rax; movq %rax, %rbx (register copy); optional addq $imm, %rbx; load via %rbx or %rax
    if skip(locals()):
        return True
    ker = [inst("x86", "movq %rdx, 8(%rax)", 1, disp=d1), inst("x86", "movq %rax, %rbx", 2)]
    if bump_copy:
        ker.append(inst("x86", "addq $1, %rbx", 3, imm=imm))
    ker.append(inst("x86", "movq 8(%rbx), %rcx" if load_via_copy else "movq 8(%rax), %rcx", len(ker) + 1, disp=d2))
    e = run("x86", ker, 5, 0)
    if load_via_copy:
        expect = d2 + (imm if bump_copy else 0) - d1 == 0
    else:
        expect = d2 - d1 == 0
    return verdict(check(e, 1, len(ker), expect, 5, 0), nontrivial=expect, sample=lambda: {"d1": d1, "d2": d2, "imm": imm, "bump_copy": bump_copy, "via_copy": load_via_copy, "dep": expect})


def x86_two_bumps(d1: int, d2: int, i1: int, i2: int, k1: int, k2: int) -> bool:
    """
    pre: 1 <= k1 < 5 and 1 <= k2 < 5
    post: _
    """
    if skip(locals()):
        return True
    a, b = pick(k1, 5), pick(k2, 5)
    ker = [inst("x86", "movq %rdx, 8(%rax)", 1, disp=d1), inst("x86", X86_BUMPS[a], 2, imm=i1), inst("x86", X86_BUMPS[b], 3, imm=i2),
           inst("x86", "movq 8(%rax), %rcx", 4, disp=d2)]
    e = run("x86", ker, 2, 3)
    expect = d2 + _x86_bump_delta(a, i1)[0] + _x86_bump_delta(b, i2)[0] - d1 == 0
    return verdict(check(e, 1, 4, expect, 2, 3), nontrivial=expect, sample=lambda: {"d1": d1, "d2": d2, "bumps": [X86_BUMPS[a], i1, X86_BUMPS[b], i2], "dep": expect})


def x86_store_between(d1: int, d2: int, d3: int, lat: int, fwd: int) -> bool:
    """
    pre: 0 <= lat <= 20 and 0 <= fwd <= 20
    post: _
    """
    # a second store between: to the same operand (d3 == d1) it ends the search of the first one
    if skip(locals()):
        return True
    ker = [inst("x86", "movq %rdx, 8(%rax)", 1, disp=d1), inst("x86", "movq %rsi, 8(%rax)", 2, disp=d3),
           inst("x86", "movq 8(%rax), %rcx", 3, disp=d2)]
    e = run("x86", ker, lat, fwd)
    exp13 = (d2 == d1) and not (d3 == d1)
    exp23 = d2 == d3
    ok = check(e, 1, 3, exp13, lat, fwd) and ((2, 3) in e) == exp23
    return verdict(ok, nontrivial=exp13 or exp23, sample=lambda: {"d1": d1, "d2": d2, "d3": d3})


# ---------------------------------------------------------------- AArch64

A64_BUMPS = ["none", "add x1, x1, #1", "sub x1, x1, #1", "ldr x9, [x1], #8", "ldr x9, [x1, #8]!", "add x2, x2, #1", "add x7, x7, #1"]


def _a64_bump_delta(kind, imm):
    if kind == 1:
        return imm, 0
    if kind == 2:
        return -imm, 0
    if kind in (3, 4):
        return imm, 0
    if kind == 5:
        return 0, imm
    return 0, 0


def _a64_bump(kind, imm, ln):
    if kind == 3:
        return inst("aarch64", A64_BUMPS[3], ln, post=imm)
    if kind == 4:
        return inst("aarch64", A64_BUMPS[4], ln, disp=imm)
    return inst("aarch64", A64_BUMPS[kind], ln, imm=imm)


def a64_base_disp(d1: int, d2: int, imm: int, kind: int, samebase: bool, lat: int, fwd: int) -> bool:
    """
    pre: 0 <= kind < 7 and 0 <= lat <= 20 and 0 <= fwd <= 20
    post: _
    """
    if skip(locals()):
        return True
    lo, hi = shard(7)
    if not (lo <= kind < hi):
        return True
    k = pick(kind, 7)
    ker = [inst("aarch64", "str x3, [x1, #8]", 1, disp=d1)]
    if k:
        ker.append(_a64_bump(k, imm, 2))
    ker.append(inst("aarch64", "ldr x4, [x1, #8]" if samebase else "ldr x4, [x5, #8]", len(ker) + 1, disp=d2))
    e = run("aarch64", ker, lat, fwd)
    da, _ = _a64_bump_delta(k, imm)
    expect = bool(samebase) and (d2 + da - d1 == 0)
    return verdict(check(e, 1, len(ker), expect, lat, fwd), nontrivial=expect,
                   sample=lambda: {"d1": d1, "d2": d2, "imm": imm, "bump": A64_BUMPS[k], "samebase": samebase, "dep": expect})


def a64_nodisp(d: int, imm: int, kind: int, store_has_disp: bool) -> bool:
    """
    pre: 0 <= kind < 5
    post: _
    """
    if skip(locals()):
        return True
    k = pick(kind, 5)
    if store_has_disp:
        ker = [inst("aarch64", "str x3, [x1, #8]", 1, disp=d)]
    else:
        ker = [inst("aarch64", "str x3, [x1]", 1)]
    if k:
        ker.append(_a64_bump(k, imm, 2))
    if store_has_disp:
        ker.append(inst("aarch64", "ldr x4, [x1]", len(ker) + 1))
        delta = 0 - d
    else:
        ker.append(inst("aarch64", "ldr x4, [x1, #8]", len(ker) + 1, disp=d))
        delta = d
    e = run("aarch64", ker, 3, 2)
    expect = delta + _a64_bump_delta(k, imm)[0] == 0
    return verdict(check(e, 1, len(ker), expect, 3, 2), nontrivial=expect, sample=lambda: {"d": d, "imm": imm, "bump": A64_BUMPS[k], "dep": expect})


def a64_index(imm: int, kind: int, sh1: int, sh2: int, sameindex: bool) -> bool:
    """
    pre: 0 <= kind < 7 and 0 <= sh1 < 4 and 0 <= sh2 < 4
    post: _
    """
    if skip(locals()):
        return True
    k = pick(kind, 7)
    a, b = pick(sh1, 4), pick(sh2, 4)
    st = inst("aarch64", "str x3, [x1, x2, lsl #3]", 1)
    st.operands[1].scale = 1 << a
    ker = [st]
    if k:
        ker.append(_a64_bump(k, imm, 2))
    ld = inst("aarch64", "ldr x4, [x1, x2, lsl #3]" if sameindex else "ldr x4, [x1, x6, lsl #3]", len(ker) + 1)
    ld.operands[1].scale = 1 << b
    ker.append(ld)
    e = run("aarch64", ker, 4, 1)
    da, di = _a64_bump_delta(k, imm)
    expect = bool(sameindex) and a == b and (da + (1 << b) * di == 0)
    return verdict(check(e, 1, len(ker), expect, 4, 1), nontrivial=expect, sample=lambda: {"imm": imm, "bump": A64_BUMPS[k], "shifts": [a, b], "sameindex": sameindex, "dep": expect})


def a64_copy_add(d1: int, d2: int, imm: int, sub: bool, via_copy: bool, bump2: bool, imm2: int) -> bool:
    """
    post: _
    """
    # copy-plus-constant into ANOTHER register: add x4, x1, #imm (x4 = x1 + imm); optional further
    # bump of the copy; load through the copy or through the unchanged original
    if skip(locals()):
        return True
    ker = [inst("aarch64", "str x3, [x1, #8]", 1, disp=d1),
           inst("aarch64", "sub x4, x1, #1" if sub else "add x4, x1, #1", 2, imm=imm)]
    if bump2:
        ker.append(inst("aarch64", "add x4, x4, #1", 3, imm=imm2))
    ker.append(inst("aarch64", "ldr x5, [x4, #8]" if via_copy else "ldr x5, [x1, #8]", len(ker) + 1, disp=d2))
    e = run("aarch64", ker, 3, 1)
    if via_copy:
        expect = d2 + (-imm if sub else imm) + (imm2 if bump2 else 0) - d1 == 0
    else:
        expect = d2 - d1 == 0
    return verdict(check(e, 1, len(ker), expect, 3, 1), nontrivial=expect,
                   sample=lambda: {"d1": d1, "d2": d2, "imm": imm, "sub": sub, "via_copy": via_copy, "bump2": bump2, "imm2": imm2, "dep": expect})


def a64_indexed_load(d1: int, p: int, pre: bool, imm: int, bump: bool) -> bool:
    """
    post: _
    """
    # the dependent load itself is post-indexed (reads [x1], then x1 += p) or pre-indexed
    # (x1 += p, reads the new [x1])
    if skip(locals()):
        return True
    ker = [inst("aarch64", "str x3, [x1, #8]", 1, disp=d1)]
    if bump:
        ker.append(inst("aarch64", "add x1, x1, #1", 2, imm=imm))
    if pre:
        ker.append(inst("aarch64", "ldr x4, [x1, #8]!", len(ker) + 1, disp=p))
    else:
        ker.append(inst("aarch64", "ldr x4, [x1], #8", len(ker) + 1, post=p))
    run("aarch64", ker, 3, 2)
    g = DG(ker, NativeParser(PA), model=mk_model("aarch64", ports=["0"], store_to_load_forward_latency=0), sem=SEM["aarch64"])
    found = False
    for dep, flags in g.find_depending(ker[0], ker[1:]):
        if dep is ker[-1] and "storeload_dep" in flags:
            found = True
    b = imm if bump else 0
    expect = (b + p - d1 == 0) if pre else (b - d1 == 0)
    return verdict(found == expect, nontrivial=expect, sample=lambda: {"d1": d1, "p": p, "pre": pre, "imm": imm, "bump": bump, "dep": expect})


def x86_rmw_between(d1: int, d2: int, d3: int, kind: int) -> bool:
    """
    pre: 0 <= kind <= 2
    post: _
    """
    # a read-modify-write instruction on memory between store and load: to the same operand it ends the
    # search of the first store (it overwrites the location) and is itself the producer for the load
    if skip(locals()):
        return True
    k = pick(kind, 3)
    rmw = ["addq $1, 8(%rax)", "incq 8(%rax)", "subq %rsi, 8(%rax)"][k]
    ker = [inst("x86", "movq %rdx, 8(%rax)", 1, disp=d1), inst("x86", rmw, 2, disp=d3), inst("x86", "movq 8(%rax), %rcx", 3, disp=d2)]
    e = run("x86", ker, 4, 1)
    exp13 = (d2 == d1) and not (d3 == d1)
    ok = ((1, 3) in e) == exp13 and ((2, 3) in e) == (d2 == d3)
    return verdict(ok, nontrivial=exp13 or d2 == d3, sample=lambda: {"d1": d1, "d2": d2, "d3": d3, "rmw": rmw})


def a64_two_bumps(d1: int, d2: int, i1: int, i2: int, k1: int, k2: int) -> bool:
    """
    pre: 1 <= k1 < 5 and 1 <= k2 < 5
    post: _
    """
    if skip(locals()):
        return True
    a, b = pick(k1, 5), pick(k2, 5)
    ker = [inst("aarch64", "str x3, [x1, #8]", 1, disp=d1), _a64_bump(a, i1, 2), _a64_bump(b, i2, 3), inst("aarch64", "ldr x4, [x1, #8]", 4, disp=d2)]
    e = run("aarch64", ker, 2, 3)
    expect = d2 + _a64_bump_delta(a, i1)[0] + _a64_bump_delta(b, i2)[0] - d1 == 0
    return verdict(check(e, 1, 4, expect, 2, 3), nontrivial=expect, sample=lambda: {"d1": d1, "d2": d2, "bumps": [A64_BUMPS[a], i1, A64_BUMPS[b], i2], "dep": expect})


def a64_store_between(d1: int, d2: int, d3: int) -> bool:
    """
    post: _
    """
    if skip(locals()):
        return True
    ker = [inst("aarch64", "str x3, [x1, #8]", 1, disp=d1), inst("aarch64", "str x7, [x1, #8]", 2, disp=d3),
           inst("aarch64", "ldr x4, [x1, #8]", 3, disp=d2)]
    e = run("aarch64", ker, 3, 1)
    exp13 = (d2 == d1) and not (d3 == d1)
    exp23 = d2 == d3
    ok = check(e, 1, 3, exp13, 3, 1) and ((2, 3) in e) == exp23
    return verdict(ok, nontrivial=exp13 or exp23, sample=lambda: {"d1": d1, "d2": d2, "d3": d3})


def a64_indexed_store(p: int, d2: int, pre: bool) -> bool:
    """
    post: _
    """
    # the store itself is post-indexed ([x1], #p: stores at x1, then x1 += p) or pre-indexed
    # ([x1, #p]!: x1 += p, stores at the new x1)
    if skip(locals()):
        return True
    if pre:
        ker = [inst("aarch64", "str x3, [x1, #8]!", 1, disp=p)]
    else:
        ker = [inst("aarch64", "str x3, [x1], #8", 1, post=p)]
    ker.append(inst("aarch64", "ldr x4, [x1, #8]", len(ker) + 1, disp=d2))
    run("aarch64", ker, 3, 2)
    # the load also reads the written-back base register, so the graph has an edge 1->last in any
    # case; observe the store->load decision directly at find_depending
    g = DG(ker, NativeParser(PA), model=mk_model("aarch64", ports=["0"], store_to_load_forward_latency=0), sem=SEM["aarch64"])
    found = False
    for dep, flags in g.find_depending(ker[0], ker[1:]):
        if dep is ker[-1] and "storeload_dep" in flags:
            found = True
    expect = (d2 == 0) if pre else (p + d2 == 0)
    return verdict(found == expect, nontrivial=expect, sample=lambda: {"p": p, "d2": d2, "pre": pre, "dep": expect})



# ---- sequences of pointer manipulations between store and load (abstract interpretation as oracle) -----
# Each register's value is tracked as (register whose value at the time of the store it derives from,
# constant added since) or None when it was overwritten by something untrackable.

X86_SEQ = [  # (text, effect)  effect: ("add", reg, sign) uses the symbolic immediate; ("inc", reg, +-1); ("copy", dst, src); ("kill", reg); None
    ("addq $1, %rsi", None),
    ("addq $1, %rax", ("add", "rax", 1)),
    ("subq $1, %rax", ("add", "rax", -1)),
    ("movq %rax, %rcx", ("copy", "rcx", "rax")),
    ("movq %rcx, %rdx", ("copy", "rdx", "rcx")),
    ("movq %rdx, %rax", ("copy", "rax", "rdx")),
    ("addq $1, %rcx", ("add", "rcx", 1)),
    ("incq %rcx", ("inc", "rcx", 1)),
    ("movq %rbx, %rax", ("copy", "rax", "rbx")),
    ("movq (%r8), %rcx", ("kill", "rcx")),
]
A64_SEQ = [
    ("add x9, x9, #1", None),
    ("add x1, x1, #1", ("add", "x1", 1)),
    ("sub x1, x1, #1", ("add", "x1", -1)),
    ("mov x2, x1", ("copy", "x2", "x1")),
    ("mov x3, x2", ("copy", "x3", "x2")),
    ("mov x1, x3", ("copy", "x1", "x3")),
    ("add x2, x2, #1", ("add", "x2", 1)),
    ("add x2, x1, #1", ("copyadd", "x2", "x1")),
    ("mov x1, x4", ("copy", "x1", "x4")),
    ("ldr x2, [x8]", ("kill", "x2")),
]


def _apply(state, eff, imm):
    if eff is None:
        return
    kind = eff[0]
    if kind == "add":
        if state.get(eff[1], (eff[1], 0)) is not None:
            o, d = state.get(eff[1], (eff[1], 0))
            state[eff[1]] = (o, d + eff[2] * imm)
    elif kind == "inc":
        if state.get(eff[1], (eff[1], 0)) is not None:
            o, d = state.get(eff[1], (eff[1], 0))
            state[eff[1]] = (o, d + eff[2])
    elif kind == "copy":
        state[eff[1]] = state.get(eff[2], (eff[2], 0))
    elif kind == "copyadd":
        src = state.get(eff[2], (eff[2], 0))
        state[eff[1]] = None if src is None else (src[0], src[1] + imm)
    elif kind == "kill":
        state[eff[1]] = None


def _seq(isa, menu, store_line, load_lines, base, ks, imms, d1, d2, which_load):
    ker = [inst(isa, store_line, 1, disp=d1)]
    state = {}
    for k, imm in zip(ks, imms):
        text, eff = menu[k]
        ker.append(inst(isa, text, len(ker) + 1, imm=imm))
        _apply(state, eff, imm)
    line, reg = load_lines[which_load]
    ker.append(inst(isa, line, len(ker) + 1, disp=d2))
    e = run(isa, ker, 3, 2)
    st = state.get(reg, (reg, 0))
    expect = st is not None and st[0] == base and (d2 + st[1] - d1 == 0)
    return check(e, 1, len(ker), expect, 3, 2), expect, [menu[k][0] for k in ks], line


X86_LOADS = [("movq 8(%rax), %rdi", "rax"), ("movq 8(%rcx), %rdi", "rcx"), ("movq 8(%rdx), %rdi", "rdx"),
             ("movq 8(%rax), %rax", "rax"), ("movq 8(%rcx), %rcx", "rcx")]          # the last two overwrite their own base (pointer chasing)
A64_LOADS = [("ldr x7, [x1, #8]", "x1"), ("ldr x7, [x2, #8]", "x2"), ("ldr x7, [x3, #8]", "x3"),
             ("ldr x1, [x1, #8]", "x1"), ("ldr x2, [x2, #8]", "x2")]


def _seq2_impl(which, k0, k1, i0, i1, d1, d2, ld):
    # (no contract on this helper: CrossHair enforces the contracts of called functions, which would turn the
    # vacuity twin's False into an aborted path)
    if skip({"k0": k0, "k1": k1, "i0": i0, "i1": i1, "d1": d1, "d2": d2, "ld": ld}):
        return True
    lo, hi = shard(100)
    if not (lo <= k0 * 10 + k1 < hi):
        return True
    if which == "x86":
        ok, expect, seq, line = _seq("x86", X86_SEQ, "movq %rsi, 8(%rax)", X86_LOADS, "rax", [pick(k0, 10), pick(k1, 10)], [i0, i1], d1, d2, pick(ld, 5))
    else:
        ok, expect, seq, line = _seq("aarch64", A64_SEQ, "str x5, [x1, #8]", A64_LOADS, "x1", [pick(k0, 10), pick(k1, 10)], [i0, i1], d1, d2, pick(ld, 5))
    return verdict(ok, nontrivial=expect, sample=lambda: {"between": seq, "imm": [i0, i1], "d1": d1, "d2": d2, "load": line, "dep": expect})


QUICK_MENU_A64 = (0, 1, 3, 4, 6, 7, 8, 9)   # AArch64: without 'sub' and the copy back into the base; 'add xd, xn, #imm' (copy + bump) stays
QUICK_MENU = (0, 1, 3, 4, 5, 6, 8, 9)       # quick tier: without 'sub' and 'inc' (their arithmetic is covered by the single-bump cells)


def x86_seq2q(q0: int, q1: int, i0: int, i1: int, d1: int, d2: int, l: int) -> bool:
    """
    pre: 0 <= q0 < 8 and 0 <= q1 < 8 and 0 <= l < 4
    post: _
    """
    return _seq2_impl("x86", QUICK_MENU[pick(q0, 8)], QUICK_MENU[pick(q1, 8)], i0, i1, d1, d2, (0, 2, 3, 4)[pick(l, 4)])


def a64_seq2q(q0: int, q1: int, i0: int, i1: int, d1: int, d2: int, l: int) -> bool:
    """
    pre: 0 <= q0 < 8 and 0 <= q1 < 8 and 0 <= l < 4
    post: _
    """
    return _seq2_impl("a64", QUICK_MENU_A64[pick(q0, 8)], QUICK_MENU_A64[pick(q1, 8)], i0, i1, d1, d2, (0, 2, 3, 4)[pick(l, 4)])


def x86_seq2(k0: int, k1: int, i0: int, i1: int, d1: int, d2: int, ld: int) -> bool:
    """
    pre: 0 <= k0 < 10 and 0 <= k1 < 10 and 0 <= ld < 5
    post: _
    """
    if skip(locals()):
        return True
    lo, hi = shard(100)
    if not (lo <= k0 * 10 + k1 < hi):
        return True
    ok, expect, seq, line = _seq("x86", X86_SEQ, "movq %rsi, 8(%rax)", X86_LOADS, "rax", [pick(k0, 10), pick(k1, 10)], [i0, i1], d1, d2, pick(ld, 5))
    return verdict(ok, nontrivial=expect, sample=lambda: {"between": seq, "imm": [i0, i1], "d1": d1, "d2": d2, "load": line, "dep": expect})


def a64_seq2(k0: int, k1: int, i0: int, i1: int, d1: int, d2: int, ld: int) -> bool:
    """
    pre: 0 <= k0 < 10 and 0 <= k1 < 10 and 0 <= ld < 5
    post: _
    """
    if skip(locals()):
        return True
    lo, hi = shard(100)
    if not (lo <= k0 * 10 + k1 < hi):
        return True
    ok, expect, seq, line = _seq("aarch64", A64_SEQ, "str x5, [x1, #8]", A64_LOADS, "x1", [pick(k0, 10), pick(k1, 10)], [i0, i1], d1, d2, pick(ld, 5))
    return verdict(ok, nontrivial=expect, sample=lambda: {"between": seq, "imm": [i0, i1], "d1": d1, "d2": d2, "load": line, "dep": expect})


def x86_seq3(k0: int, k1: int, k2: int, i0: int, i1: int, i2: int, d1: int, d2: int, ld: int) -> bool:
    """
    pre: 0 <= k0 < 10 and 0 <= k1 < 10 and 0 <= k2 < 10 and 0 <= ld < 5
    post: _
    """
    if skip(locals()):
        return True
    lo, hi = shard(100)
    if not (lo <= k0 * 10 + k1 < hi):
        return True
    ok, expect, seq, line = _seq("x86", X86_SEQ, "movq %rsi, 8(%rax)", X86_LOADS, "rax", [pick(k0, 10), pick(k1, 10), pick(k2, 10)], [i0, i1, i2], d1, d2, pick(ld, 5))
    return verdict(ok, nontrivial=expect, sample=lambda: {"between": seq, "imm": [i0, i1, i2], "d1": d1, "d2": d2, "load": line, "dep": expect})


def a64_seq3(k0: int, k1: int, k2: int, i0: int, i1: int, i2: int, d1: int, d2: int, ld: int) -> bool:
    """
    pre: 0 <= k0 < 10 and 0 <= k1 < 10 and 0 <= k2 < 10 and 0 <= ld < 5
    post: _
    """
    if skip(locals()):
        return True
    lo, hi = shard(100)
    if not (lo <= k0 * 10 + k1 < hi):
        return True
    ok, expect, seq, line = _seq("aarch64", A64_SEQ, "str x5, [x1, #8]", A64_LOADS, "x1", [pick(k0, 10), pick(k1, 10), pick(k2, 10)], [i0, i1, i2], d1, d2, pick(ld, 5))
    return verdict(ok, nontrivial=expect, sample=lambda: {"between": seq, "imm": [i0, i1, i2], "d1": d1, "d2": d2, "load": line, "dep": expect})


_B = "displacements and immediates: unbounded symbolic ints; "
CELLS = {
    "x86_seq2q": {"fn": x86_seq2q, "tiers": ("quick",), "bound": _B + "as x86_seq2 with 8 of the 10 menu entries (without sub / inc) and 4 of the 5 loads", "budget": {"quick": 170}, "shards": 20},
    "a64_seq2q": {"fn": a64_seq2q, "tiers": ("quick",), "bound": _B + "as a64_seq2 with 8 of the 10 menu entries (without sub / the copy back into the base) and 4 of the 5 loads", "budget": {"quick": 170}, "shards": 20},
    "x86_seq2": {"fn": x86_seq2, "tiers": ("thorough",), "bound": _B + "store d1(%rax); TWO instructions from a menu of 10 (add/sub $imm on the base, copies rax->rcx->rdx->rax, add/inc on a copy, copy from a foreign register, untrackable load into a copy); load d2 through rax, rcx or rdx, also loads that overwrite their own base (pointer chasing); oracle: abstract interpretation (origin register, constant)", "budget": {"quick": 170, "thorough": 600}, "shards": 20},
    "a64_seq2": {"fn": a64_seq2, "tiers": ("thorough",), "bound": _B + "same on AArch64 (add/sub #imm, mov copies, add xd, xn, #imm as copy+bump)", "budget": {"quick": 170, "thorough": 600}, "shards": 20},
    "x86_seq3": {"fn": x86_seq3, "tiers": ("thorough",), "bound": _B + "THREE instructions from the menu between store and load", "budget": {"thorough": 1500}, "shards": 50},
    "a64_seq3": {"fn": a64_seq3, "tiers": ("thorough",), "bound": _B + "THREE instructions from the menu between store and load", "budget": {"thorough": 1500}, "shards": 50},
    "x86_base_disp": {"fn": x86_base_disp, "bound": _B + "store d1(%rax); one of {none, add/sub $imm, inc, dec on base, add/inc on unrelated regs}; load d2(%rax|%rbx); store latency, forwarding latency 0..20", "budget": {"quick": 150, "thorough": 600}, "shards": 8},
    "x86_nodisp": {"fn": x86_nodisp, "bound": _B + "one side without displacement", "budget": {"quick": 150, "thorough": 600}},
    "x86_index_scale": {"fn": x86_index_scale, "bound": _B + "d(%rax,%rsi,s): scales 1/2/4/8 on both sides, bumps on base or index, same/different index register", "budget": {"quick": 170, "thorough": 900}, "shards": 8},
    "x86_copy": {"fn": x86_copy, "bound": _B + "register copy movq %rax,%rbx between store and load, optional add on the copy, load via copy or original", "budget": {"quick": 150, "thorough": 600}},
    "x86_two_bumps": {"fn": x86_two_bumps, "tiers": ("thorough",), "bound": _B + "two pointer bumps (add/sub/inc/dec) between store and load", "budget": {"thorough": 900}},
    "x86_store_between": {"fn": x86_store_between, "bound": _B + "second store between store and load", "budget": {"quick": 150, "thorough": 600}},
    "a64_base_disp": {"fn": a64_base_disp, "bound": _B + "str [x1,#d1]; one of {none, add/sub #imm, post-indexed ldr, pre-indexed ldr on base, add on unrelated regs}; ldr [x1|x5,#d2]", "budget": {"quick": 150, "thorough": 600}, "shards": 7},
    "a64_nodisp": {"fn": a64_nodisp, "bound": _B + "one side without offset", "budget": {"quick": 150, "thorough": 600}},
    "a64_index": {"fn": a64_index, "bound": "[x1, x2, lsl #n]: shifts 0..3 both sides, bumps on base or index (symbolic immediates), same/different index", "budget": {"quick": 170, "thorough": 900}},
    "a64_indexed_store": {"fn": a64_indexed_store, "bound": _B + "post- or pre-indexed store directly followed by load [x1,#d2]", "budget": {"quick": 150, "thorough": 600}},
    "a64_copy_add": {"fn": a64_copy_add, "bound": _B + "add/sub x4, x1, #imm (copy plus constant into another register), optional add on the copy, load via copy or original", "budget": {"quick": 150, "thorough": 600}},
    "a64_indexed_load": {"fn": a64_indexed_load, "bound": _B + "the dependent load itself post- or pre-indexed, optional add on the base before it", "budget": {"quick": 150, "thorough": 600}},
    "x86_rmw_between": {"fn": x86_rmw_between, "bound": _B + "read-modify-write on memory (add $imm / inc / sub reg) between store and load", "budget": {"quick": 150, "thorough": 600}},
    "a64_two_bumps": {"fn": a64_two_bumps, "tiers": ("thorough",), "bound": _B + "two bumps incl. post/pre-index", "budget": {"thorough": 900}},
    "a64_store_between": {"fn": a64_store_between, "bound": _B + "second store between", "budget": {"quick": 150, "thorough": 600}},
}

META = {
    "functions": ["KernelDG.find_depending (memory branch)", "KernelDG.is_memload", "KernelDG.is_memstore", "KernelDG._update_reg_changes", "KernelDG.create_DG (storeload_dep weight)",
                  "ISASemantics.get_reg_changes incl. exec(isa_data.operation)", "ISASemantics.assign_src_dst", "MachineModel.get_instruction on the real isa/x86.yml and isa/aarch64.yml",
                  "MachineModel.__init__ loader (YAML -> classes, caches bypassed)"],
    "bounds": "one store, 0-2 pointer-bump instructions, one load, optionally a second store; every numeric field an unbounded symbolic int; addressing shapes (b), d(b), d(b,i,s) / [b], [b,#d], [b,xi,lsl #n]",
    "outside": "lea; bumps through registers with unknown value (the code gives up; either answer accepted, not generated); segment/identifier offsets; pointer bumps between a post/pre-indexed *store* and the load (the code ends the search at a write to the store's base; either answer accepted)",
    "assumptions": ["templates are parsed by the real parsers natively; only numeric fields are replaced", "loads are flagged LD (no separate load node) and all latencies except the store's are 1"],
}
