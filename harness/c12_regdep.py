"""C12 - register dependence equals architectural register overlap.

AArch64: every pair of register names (numbers 0-31, sp/zr in both spellings) and every
ordered prefix pair in both cases (a first version used symbolic name strings; the
case-insensitive comparison of the repaired code makes z3's string theory too slow for that).
x86: the architectural partition is a finite table written here from
the ISA manuals; the pair of table indices and the case bits are symbolic, each path is
one concrete run of the real predicate (complete case split, stated as such).
"""
from osaca.parser import ParserAArch64, ParserX86ATT
from osaca.parser.register import RegisterOperand

from vp.api import verdict, skip, shard
from vp.symx import pick, NoTracing, native

PX = ParserX86ATT()
PA = ParserAArch64()

A64_PREFIXES = "wxbhsdqvzp"


def _a64_class(p):
    if p in "wx":
        return 0
    if p in "bhsdqvz":
        return 1
    return 2  # predicate


A64_NAMES = [str(n) for n in range(32)] + ["sp", "zr", "SP", "ZR"]
A64_PAIRS6 = [("x", "w"), ("w", "w"), ("v", "d"), ("z", "q"), ("p", "p"), ("x", "d"), ("p", "z"), ("w", "p")]


def _a64_concrete(ca, cb, na, nb, ua, ub):
    ra = RegisterOperand(prefix=ca.upper() if ua else ca, name=na)
    rb = RegisterOperand(prefix=cb.upper() if ub else cb, name=nb)
    expect = na.lower() == nb.lower() and _a64_class(ca) == _a64_class(cb)
    got_ab = bool(PA.is_reg_dependend_of(ra, rb))
    got_ba = bool(PA.is_reg_dependend_of(rb, ra))
    got_aa = bool(PA.is_reg_dependend_of(ra, ra))
    return got_ab == expect and got_ba == expect and got_aa, expect, [ca, na, cb, nb, expect]


def a64_names(pp: int, ia: int, ib: int) -> bool:
    """
    pre: 0 <= pp < 8 and 0 <= ia < 36 and 0 <= ib < 36
    post: _
    """
    # every pair of register names (numbers 0-31, sp/zr in both spellings) x 8 representative
    # prefix pairs (same class / different class)
    if skip(locals()):
        return True
    lo, hi = shard(36)
    if not (lo <= ia < hi):
        return True
    ca, cb = A64_PAIRS6[pick(pp, 8)]
    ok, expect, sample = native(_a64_concrete, ca, cb, A64_NAMES[pick(ia, 36)], A64_NAMES[pick(ib, 36)], False, False)
    return verdict(ok, nontrivial=expect, sample=sample)


def a64_prefixes(pa: int, pb: int, same: bool, ua: bool, ub: bool) -> bool:
    """
    pre: 0 <= pa < 10 and 0 <= pb < 10
    post: _
    """
    # every ordered prefix pair x upper/lower case x {same number, different number}
    if skip(locals()):
        return True
    ca, cb = A64_PREFIXES[pick(pa, 10)], A64_PREFIXES[pick(pb, 10)]
    ok, expect, sample = native(_a64_concrete, ca, cb, "7", "7" if same else "17", True if ua else False, True if ub else False)
    return verdict(ok, nontrivial=expect, sample=sample)


def a64_aliases(pa: int, pb: int, ia: int, ib: int) -> bool:
    """
    pre: 0 <= pa < 10 and 0 <= pb < 10 and 0 <= ia < 7 and 0 <= ib < 7
    post: _
    """
    if skip(locals()):
        return True
    names = ["sp", "zr", "0", "30", "31", "SP", "ZR"]     # [SP, #8] keeps the spelling of the source
    ca = A64_PREFIXES[pick(pa, 10)]
    cb = A64_PREFIXES[pick(pb, 10)]
    na, nb = names[pick(ia, 7)], names[pick(ib, 7)]
    ra = RegisterOperand(prefix=ca, name=na)
    rb = RegisterOperand(prefix=cb, name=nb)
    expect = na.lower() == nb.lower() and _a64_class(ca) == _a64_class(cb)
    ok = bool(PA.is_reg_dependend_of(ra, rb)) == expect and bool(PA.is_reg_dependend_of(rb, ra)) == expect
    return verdict(ok, nontrivial=expect, sample=lambda: [ca + na, cb + nb, expect])


# ---- x86: architectural partition (Intel SDM vol.1 3.4.1, 3.7.2.1) ----------------------
def _x86_table(full):
    fam = []
    for l in "abcd":
        fam.append(["r%sx" % l, "e%sx" % l, "%sx" % l, "%sh" % l, "%sl" % l])
    for b in ("sp", "bp", "si", "di"):
        fam.append(["r" + b, "e" + b, b, b + "l"])
    for n in range(8, 16):
        fam.append(["r%d" % n, "r%dd" % n, "r%dw" % n, "r%db" % n])
    vec_numbers = range(32) if full else [0, 1, 9, 10, 15, 16, 31]
    for n in vec_numbers:
        fam.append(["xmm%d" % n, "ymm%d" % n, "zmm%d" % n])
    for n in (range(8) if full else [0, 1, 7]):
        fam.append(["mm%d" % n])
    for n in (range(8) if full else [0, 1, 7]):
        fam.append(["k%d" % n])
    names, family = [], []
    for fi, f in enumerate(fam):
        for nm in f:
            names.append(nm)
            family.append(fi)
    return names, family


X86_Q = _x86_table(False)
X86_F = _x86_table(True)


def _x86_pair(tab, i, j, ui, uj):
    names, family = tab
    n = len(names)
    ii, jj = pick(i, n), pick(j, n)
    a, b = names[ii], names[jj]
    ra = RegisterOperand(name=a.upper() if ui else a)
    rb = RegisterOperand(name=b.upper() if uj else b)
    expect = family[ii] == family[jj]
    with NoTracing():  # everything is concrete on this path: run the real predicate natively
        got = bool(PX.is_reg_dependend_of(ra, rb))
        got_rev = bool(PX.is_reg_dependend_of(rb, ra))
    return got == expect and got_rev == expect, expect, [ra.name, rb.name, expect]


def x86_pairs(i: int, j: int, ui: bool, uj: bool) -> bool:
    """
    pre: 0 <= i < 95 and 0 <= j < 95
    post: _
    """
    if skip(locals()):
        return True
    assert len(X86_Q[0]) == 95
    lo, hi = shard(95)
    if not (lo <= i < hi):
        return True
    ok, expect, s = _x86_pair(X86_Q, i, j, ui, uj)
    return verdict(ok, nontrivial=expect, sample=s)


def x86_pairs_full(i: int, j: int, ui: bool, uj: bool) -> bool:
    """
    pre: 0 <= i < 180 and 0 <= j < 180
    post: _
    """
    if skip(locals()):
        return True
    assert len(X86_F[0]) == 180
    lo, hi = shard(180)
    if not (lo <= i < hi):
        return True
    ok, expect, s = _x86_pair(X86_F, i, j, ui, uj)
    return verdict(ok, nontrivial=expect, sample=s)


_FUN = ["osaca.parser.parser_x86att.ParserX86ATT.is_reg_dependend_of", "is_basic_gpr", "is_vector_register",
        "osaca.parser.parser_AArch64.ParserAArch64.is_reg_dependend_of", "osaca.parser.register.RegisterOperand.__init__"]

CELLS = {
    "a64_names": {"fn": a64_names, "bound": "all 36 x 36 name pairs (0-31, sp, zr, SP, ZR) x 8 representative prefix pairs", "budget": {"quick": 150, "thorough": 600}, "shards": 12},
    "a64_prefixes": {"fn": a64_prefixes, "bound": "all 10 x 10 ordered prefix pairs x case x {same, different number}", "budget": {"quick": 150, "thorough": 600}},
    "x86_pairs": {"fn": x86_pairs, "tiers": ("quick",), "bound": "95 names (16 GPR families all widths; vector numbers 0,1,9,10,15,16,31; mm/k 0,1,7) x 95 x case bits",
                  "budget": {"quick": 170}, "shards": 12},
    "x86_pairs_full": {"fn": x86_pairs_full, "tiers": ("thorough",), "bound": "all 180 names x 180 x 4 case combinations", "budget": {"thorough": 900}, "shards": 16},
}

META = {
    "functions": _FUN,
    "bounds": "AArch64: every name pair over 0-31/sp/zr/SP/ZR x representative prefix pairs, every ordered prefix pair x case; x86: finite architectural table (quick 95 names, thorough 180), both orders, both cases",
    "outside": "x86 names outside the table (e.g. segment registers, st(i)); AArch64 names longer than 2 characters or containing non-digits other than the sp/zr aliases",
    "assumptions": ["transitivity is not run as its own cell: the pair cells show relation == 'same family' of a partition, which is an equivalence",
                    "architectural partition written from the ISA manuals in harness/c12_regdep.py",
                    "x86 cells: each path is a concrete run; the solver only performs the complete case split"],
}
