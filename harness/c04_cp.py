"""C04 - critical path = longest latency-weighted dependency chain.

Symbolic: every latency (lat_i, wo_i = latency without load), every dependency bit e_ij
(instruction j reads the register written by i), whether instruction i has a separately
modelled load stage.  Real code: KernelDG.create_DG (incl. load nodes), get_critical_path,
and the CP total as Frontend computes it (sum of per-line latency_cp of the returned lines).
networkx runs under tracing with symbolic edge weights.
"""
from osaca.semantics import INSTR_FLAGS

from vp.api import verdict, skip, shard


def _in_shard(bits):
    """Spread the 2^k structure combinations over the workers (VP_SHARD)."""
    idx = 0
    for k, b in enumerate(bits):
        if b:
            idx += 1 << k
    lo, hi = shard(1 << len(bits))
    return lo <= idx < hi
from vp.synth import DG, NativeParser, PX, PA, iform, reg, ref_longest


def _ref(n, e, lat, wo, ld):
    """Reference values. Node ids: 2*i = load stage of i (if ld[i]), 2*i+1 = instruction i."""
    edges = {}
    for i in range(n):
        if ld[i]:
            edges[(2 * i, 2 * i + 1)] = lat[i] - wo[i]
        for j in range(i + 1, n):
            if e[(i, j)]:
                edges[(2 * i + 1, 2 * j + 1)] = wo[i]
    # clean graph semantics: terminal weight of i = latency not already on an in-edge
    sink_clean = []
    for i in range(n):
        sink_clean += [None, wo[i] if ld[i] else lat[i]]
    t_clean = ref_longest(2 * n, edges, sink_clean)
    # generous semantics: last instruction counts with its full latency; its own load stage
    # must then not be counted a second time
    edges_nl = {k: v for k, v in edges.items()}
    t_gen = None
    for z in range(n):
        ed = {k: v for k, v in edges.items() if k != (2 * z, 2 * z + 1)}
        sink = [None] * (2 * n)
        sink[2 * z + 1] = lat[z]
        c = ref_longest(2 * n, ed, sink)
        if t_gen is None or c > t_gen:
            t_gen = c
    return t_clean, t_gen, edges


def _chain_len(chain, e, lat, wo, ld):
    """Length of the chain of instruction indices under both readings; None if not a chain."""
    if not chain:
        return (0,)  # an empty marking is a chain of length 0 (only acceptable if the total is 0)
    for a, b in zip(chain, chain[1:]):
        if not (a < b and e[(a, b)]):
            return None
    s = 0
    for a in chain[:-1]:
        s = s + wo[a]
    first, last = chain[0], chain[-1]
    lead = (lat[first] - wo[first]) if ld[first] else 0
    if len(chain) == 1:
        return (lat[first], lat[first])
    clean = lead + s + (wo[last] if ld[last] else lat[last])
    clean_nolead = s + (wo[last] if ld[last] else lat[last])
    gen = lead + s + lat[last]
    return (clean, gen, clean_nolead, s + lat[last])


def _cp(isa, n, ebits, lat, wo, ld, gap=None):
    # gap: position after which the file has blank lines (the parser skips them but keeps counting): line
    # numbers are then not consecutive
    lineno = [i + 1 + (2 if gap is not None and i > gap else 0) for i in range(n)]
    parser = NativeParser(PX if isa == "x86" else PA)
    names = ["rax", "rbx", "rcx", "rdx"] if isa == "x86" else ["x1", "x2", "x3", "x4"]
    e = {}
    k = 0
    for i in range(n):
        for j in range(i + 1, n):
            e[(i, j)] = bool(ebits[k])
            k += 1
    ld = [bool(x) for x in ld]
    kernel = []
    for i in range(n):
        src = [reg(isa, names[j]) for j in range(i) if e[(j, i)]]
        flags = [INSTR_FLAGS.HAS_LD] if ld[i] else []
        kernel.append(iform(lineno[i], src=src, dst=[reg(isa, names[i])], lat=lat[i], wo=wo[i], flags=flags))
    g = DG(kernel, parser)
    cp1 = g.get_critical_path()
    total1 = sum([x.latency_cp for x in cp1])
    # the report generators query the critical path several times (text report, dict output,
    # graph export): repeated queries must give the same answer
    cp = g.get_critical_path()
    total = sum([x.latency_cp for x in cp])
    if total != total1 or [x.line_number for x in cp] != [x.line_number for x in cp1]:
        return verdict(False, nontrivial=True, sample=lambda: {"repeated_query": [total1, total]})
    t_clean, t_gen, edges = _ref(n, e, lat, wo, ld)
    ok_total = (total == t_clean) or (total == t_gen)
    chain = [lineno.index(x.line_number) for x in cp]
    cl = _chain_len(chain, e, lat, wo, ld)
    ok_chain = cl is not None and any(total == c for c in cl)
    ok_single = all(total >= lat[i] for i in range(n))
    # instructions that are not marked carry no critical-path share
    ok_single = ok_single and all(k.latency_cp == 0 for k in kernel if all(k is not x for x in cp))
    return verdict(ok_total and ok_chain and ok_single, nontrivial=len(edges) > 0,
                   sample=lambda: {"lat": lat, "wo": wo, "ld": ld, "edges": [list(k) for k, v in e.items() if v],
                                   "total": total, "chain": chain})


def cp3_x86(e01: bool, e02: bool, e12: bool, l0: int, l1: int, l2: int, w0: int, w1: int, w2: int,
            d0: bool, d1: bool, d2: bool) -> bool:
    """
    pre: 0 <= w0 <= l0 <= 40 and 0 <= w1 <= l1 <= 40 and 0 <= w2 <= l2 <= 40
    post: _
    """
    if not _in_shard([e01, e02, e12, d0, d1, d2]):
        return True
    if skip(locals()):
        return True
    # without a load stage the two latencies coincide (as assign_tp_lt produces them)
    w = [w0 if d0 else l0, w1 if d1 else l1, w2 if d2 else l2]
    return _cp("x86", 3, [e01, e02, e12], [l0, l1, l2], w, [d0, d1, d2])


def cp3_x86_ld1(e01: bool, e02: bool, e12: bool, l0: int, l1: int, l2: int, w: int, which: int, gap: int) -> bool:
    """
    pre: 0 <= l0 <= 40 and 0 <= l1 <= 40 and 0 <= l2 <= 40 and 0 <= w and 0 <= which <= 3 and 0 <= gap <= 2
    post: _
    """
    if not _in_shard([e01, e02, e12, which == 1 or which == 3, which >= 2]):
        return True
    if skip(locals()):
        return True
    lat = [l0, l1, l2]
    wo = [l0, l1, l2]
    ld = [False, False, False]
    if which < 3:
        k = 0 if which == 0 else (1 if which == 1 else 2)
        if w > lat[k]:
            return True
        wo[k] = w
        ld[k] = True
    from vp.symx import pick
    g = pick(gap, 3)
    return _cp("x86", 3, [e01, e02, e12], lat, wo, ld, gap=None if g == 2 else g)


def cp3_writeback(l0: int, l1: int, l2: int, pil: int, e01: bool, e02: bool, e12: bool, wb1: bool, wb2: bool) -> bool:
    """
    pre: 0 <= l0 <= 40 and 0 <= l1 <= 40 and 0 <= l2 <= 40 and 0 <= pil <= 10
    post: _
    """
    # instruction 0 is a post-indexed AArch64 load found directly in the model (no separate load
    # node): it writes its data register AND its base register; edges through the written-back
    # base carry the model's p_index_latency (symbolic), independent of the producer's latency
    if not _in_shard([e01, e02, e12, wb1, wb2]):
        return True
    if skip(locals()):
        return True
    from osaca.parser.memory import MemoryOperand
    from osaca.parser.immediate import ImmediateOperand
    from vp.synth import mk_model, class_reg
    isa = "aarch64"
    model = mk_model(isa, ports=["0"], p_index_latency=pil)
    mem = MemoryOperand(base=class_reg(isa, 5), offset=None, post_indexed={"value": 16})
    wb = class_reg(isa, 5)
    wb.post_indexed = mem.post_indexed
    i0 = iform(1, src=[mem], dst=[class_reg(isa, 0)], src_dst=[wb], lat=l0, flags=[INSTR_FLAGS.HAS_LD, INSTR_FLAGS.LD])
    # consumers read the data register (e0x) or the written-back base (wbx)
    src1 = ([class_reg(isa, 0)] if e01 else []) + ([class_reg(isa, 5)] if wb1 else [])
    src2 = ([class_reg(isa, 0)] if e02 else []) + ([class_reg(isa, 5)] if wb2 else []) + ([class_reg(isa, 1)] if e12 else [])
    if (e01 and wb1) or (e02 and wb2):
        return True   # data and write-back edge to the same consumer: weight not determined
    i1 = iform(2, src=src1, dst=[class_reg(isa, 1)], lat=l1)
    i2 = iform(3, src=src2, dst=[class_reg(isa, 2)], lat=l2)
    g = DG([i0, i1, i2], NativeParser(PA), model=model)
    cp = g.get_critical_path()
    total = sum([x.latency_cp for x in cp])
    edges = {}
    if e01:
        edges[(0, 1)] = l0
    if wb1:
        edges[(0, 1)] = pil
    if e02:
        edges[(0, 2)] = l0
    if wb2:
        edges[(0, 2)] = pil
    if e12:
        edges[(1, 2)] = l1
    want = ref_longest(3, edges, [l0, l1, l2])
    chain = [x.line_number - 1 for x in cp]
    ok = total == want and all((a, b) in edges for a, b in zip(chain, chain[1:]))
    return verdict(ok, nontrivial=len(edges) > 0, sample=lambda: {"lat": [l0, l1, l2], "p_index_latency": pil, "edges": {str(k): v for k, v in edges.items()}, "total": total})


def cp3_storeload(l0: int, l1: int, l2: int, fwd: int, e01: bool, same: bool, e02: bool) -> bool:
    """
    pre: 0 <= l0 <= 40 and 0 <= l1 <= 40 and 0 <= l2 <= 40 and 0 <= fwd <= 20
    post: _
    """
    # a chain through memory: producer -> store (own latency l1, e.g. a read-modify-write) -> load of the
    # same location; the store->load link weighs the store's latency plus the model's forwarding latency
    if not _in_shard([e01, same, e02]):
        return True
    if skip(locals()):
        return True
    from osaca.parser.memory import MemoryOperand
    from osaca.parser.immediate import ImmediateOperand
    from vp.synth import mk_model, class_reg
    isa = "x86"
    model = mk_model(isa, ports=["0"], store_to_load_forward_latency=fwd)
    st_mem = MemoryOperand(base=class_reg(isa, 6), offset=ImmediateOperand(value=8))
    ld_mem = MemoryOperand(base=class_reg(isa, 6), offset=ImmediateOperand(value=8 if same else 24))
    i0 = iform(1, src=[class_reg(isa, 7)], dst=[class_reg(isa, 0)], lat=l0)
    i1 = iform(2, src=[class_reg(isa, 0)] if e01 else [class_reg(isa, 8)], dst=[st_mem], lat=l1, flags=[INSTR_FLAGS.HAS_ST])
    i2 = iform(3, src=[ld_mem] + ([class_reg(isa, 0)] if e02 else []), dst=[class_reg(isa, 2)], lat=l2, flags=[INSTR_FLAGS.HAS_LD, INSTR_FLAGS.LD])
    g = DG([i0, i1, i2], NativeParser(PX), model=model)
    cp = g.get_critical_path()
    total = sum([x.latency_cp for x in cp])
    edges = {}
    if e01:
        edges[(0, 1)] = l0
    if same:
        edges[(1, 2)] = l1 + fwd
    if e02:
        edges[(0, 2)] = l0
    want = ref_longest(3, edges, [l0, l1, l2])
    chain = [x.line_number - 1 for x in cp]
    ok = total == want and all((a, b) in edges for a, b in zip(chain, chain[1:]))
    return verdict(ok, nontrivial=same, sample=lambda: {"lat": [l0, l1, l2], "forwarding": fwd, "edges": {str(k): v for k, v in edges.items()}, "total": total, "chain": chain})


def cp3_a64(e01: bool, e02: bool, e12: bool, l0: int, l1: int, l2: int, w0: int, w1: int, w2: int,
            d0: bool, d1: bool, d2: bool) -> bool:
    """
    pre: 0 <= w0 <= l0 <= 40 and 0 <= w1 <= l1 <= 40 and 0 <= w2 <= l2 <= 40
    post: _
    """
    if not _in_shard([e01, e02, e12, d0, d1, d2]):
        return True
    if skip(locals()):
        return True
    w = [w0 if d0 else l0, w1 if d1 else l1, w2 if d2 else l2]
    return _cp("aarch64", 3, [e01, e02, e12], [l0, l1, l2], w, [d0, d1, d2])


def cp3_float(e01: bool, e02: bool, e12: bool, l0: float, l1: float, l2: float) -> bool:
    """
    pre: 0 <= l0 <= 40 and 0 <= l1 <= 40 and 0 <= l2 <= 40
    post: _
    """
    if not _in_shard([e01, e02, e12]):
        return True
    if skip(locals()):
        return True
    return _cp("x86", 3, [e01, e02, e12], [l0, l1, l2], [l0, l1, l2], [False, False, False])


def cp4_x86(e01: bool, e02: bool, e03: bool, e12: bool, e13: bool, e23: bool,
            l0: int, l1: int, l2: int, l3: int, w0: int, d0: bool, w3: int, d3: bool) -> bool:
    """
    pre: 0 <= l0 <= 40 and 0 <= l1 <= 40 and 0 <= l2 <= 40 and 0 <= l3 <= 40
    pre: 0 <= w0 <= l0 and 0 <= w3 <= l3
    post: _
    """
    if not _in_shard([e01, e02, e03, e12, e13, e23, d0, d3]):
        return True
    if skip(locals()):
        return True
    w = [w0 if d0 else l0, l1, l2, w3 if d3 else l3]
    return _cp("x86", 4, [e01, e02, e03, e12, e13, e23], [l0, l1, l2, l3], w, [d0, False, False, d3])


# ---- shipped example / test kernels: reported CP vs an independent longest-path recomputation ----------

def _example_cp_concrete(ex, fixed):
    from harness._pipeline import analyze, example_lines, EXAMPLES
    lines = example_lines(ex)
    res = analyze("\n".join(lines) + "\n", EXAMPLES[ex][1], whole=True, fixed=fixed)
    g, kernel = res["dg"], res["kernel"]
    # reference: longest path over the graph's own edges (load-stage nodes included) + terminal latency
    nodes = sorted(g.dg.nodes, key=lambda n: (int(n), 0 if int(n) != n else 1))     # load stage before its instruction
    pos = {n: i for i, n in enumerate(nodes)}
    edges = {(pos[u], pos[v]): w for u, v, w in g.dg.edges(data="latency")}
    lat = {k.line_number: k.latency for k in kernel}
    clean, gen = [], []
    for n in nodes:
        if int(n) != n:
            clean.append(None)
            gen.append(None)
            continue
        has_ld = g.dg.has_edge(n + 0.1, n)
        clean.append(lat[n] - (g.dg.edges[n + 0.1, n]["latency"] if has_ld else 0))
        gen.append(lat[n])
    t_clean = ref_longest(len(nodes), edges, clean)
    total = res["summary"]["cp"]
    ok = abs(total - t_clean) < 1e-9
    if not ok:
        # generous reading: last instruction with its full latency, own load stage not counted twice
        best = None
        for z, n in enumerate(nodes):
            if gen[z] is None:
                continue
            ed = {k: v for k, v in edges.items() if not (k[1] == z and int(nodes[k[0]]) == n and nodes[k[0]] != n)}
            sink = [None] * len(nodes)
            sink[z] = gen[z]
            c = ref_longest(len(nodes), ed, sink)
            best = c if best is None or c > best else best
        ok = abs(total - best) < 1e-9
    cp = g.get_critical_path()
    ok = ok and all(total >= k.latency - 1e-9 for k in kernel)
    ok = ok and abs(sum(x.latency_cp for x in cp) - total) < 1e-9
    ok = ok and all(g.dg.has_edge(a.line_number, b.line_number) for a, b in zip(cp, cp[1:]))
    return ok, len(edges) > 0, {"kernel": EXAMPLES[ex][0], "arch": EXAMPLES[ex][1], "cp": total, "reference": t_clean, "marked_lines": [x.line_number for x in cp]}


def examples(ex: int, fixed: bool) -> bool:
    """
    pre: 0 <= ex < 16
    post: _
    """
    if skip(locals()):
        return True
    from vp.symx import pick, native
    lo, hi = shard(16)
    if not (lo <= ex < hi):
        return True
    ok, nt, sample = native(_example_cp_concrete, pick(ex, 16), True if fixed else False)
    return verdict(ok, nontrivial=nt, sample=sample)


# ---- what the text report marks as critical path (CP column of the combined view) ----------------------

MARK_LATS = [0.0, 1.0, 3.0, 12.5]


def _marks_concrete(ebits, lat_idx, n):
    import re
    from harness.c13_report import _frontend
    names = ["rax", "rbx", "rcx", "rdx"]
    e, k = {}, 0
    for i in range(n):
        for j in range(i + 1, n):
            e[(i, j)] = bool(ebits[k])
            k += 1
    lat = [MARK_LATS[x] for x in lat_idx[:n]]
    kernel = []
    for i in range(n):
        f = iform(i + 1, src=[reg("x86", names[j]) for j in range(i) if e[(j, i)]], dst=[reg("x86", names[i])], lat=lat[i], tp=1.0,
                  pressure=[1.0, 0.0], uops=[[1, ["0"]]], line="op%d" % i)
        f._comment_id = None
        kernel.append(f)
    g = DG(kernel, NativeParser(PX), lcd=True)
    fe = _frontend(["0", "1"])
    text = fe.full_analysis(kernel, g, ignore_unknown=True)
    body = text[text.index("Combined Analysis Report"):text.index("Loop-Carried Dependencies Analysis Report")]
    klines = [l for l in body.split("\n") if re.match(r"^\s*\d+ \|", l)]
    marked, col = [], 0.0
    for kl in klines:
        cell = kl.split("|")[-3].strip()
        if cell != "":
            marked.append(int(kl[:4]) - 1)
            col += float(cell)
    totals = [l for l in body.split("\n") if l.startswith("      ") and re.search(r"\d", l) and "|" not in l]
    shown_total = float(totals[0].split()[-2]) if totals else None
    t_clean, t_gen, edges = _ref(n, e, lat, lat, [False] * n)
    ok = len(klines) == n and shown_total is not None and abs(shown_total - t_clean) < 0.05 + 1e-9
    ok = ok and abs(col - t_clean) < 0.05 * n + 1e-9                          # the column adds up to the total
    ok = ok and all(a < b and e[(a, b)] for a, b in zip(marked, marked[1:]))  # consecutive marked lines are linked
    cl = _chain_len(marked, e, lat, lat, [False] * n)
    ok = ok and cl is not None and any(abs(t_clean - c) < 1e-9 for c in cl)   # and form a longest chain
    return ok, len(edges) > 0, {"lat": lat, "edges": [list(x) for x, v in e.items() if v], "marked_lines": [m + 1 for m in marked], "column_sum": col, "shown_total": shown_total, "reference": t_clean}


def cp_marks(e01: bool, e02: bool, e12: bool, l0: int, l1: int, l2: int) -> bool:
    """
    pre: 0 <= l0 < 4 and 0 <= l1 < 4 and 0 <= l2 < 4
    post: _
    """
    if skip(locals()):
        return True
    from vp.symx import pick, native
    lo, hi = shard(16)
    if not (lo <= l0 * 4 + l1 < hi):
        return True
    ok, nt, sample = native(_marks_concrete, [bool(e01), bool(e02), bool(e12)], [pick(l0, 4), pick(l1, 4), pick(l2, 4)], 3)
    return verdict(ok, nontrivial=nt, sample=sample)


def cp_marks4(e01: bool, e02: bool, e03: bool, e12: bool, e13: bool, e23: bool, l0: int, l1: int, l2: int, l3: int) -> bool:
    """
    pre: 0 <= l0 < 3 and 0 <= l1 < 3 and 0 <= l2 < 3 and 0 <= l3 < 3
    post: _
    """
    if skip(locals()):
        return True
    from vp.symx import pick, native
    if not _in_shard([e01, e02, e03, e12, e13, e23]):
        return True
    ok, nt, sample = native(_marks_concrete, [bool(x) for x in (e01, e02, e03, e12, e13, e23)], [pick(l0, 3), pick(l1, 3), pick(l2, 3), pick(l3, 3)], 4)
    return verdict(ok, nontrivial=nt, sample=sample)


CELLS = {
    "cp3_x86_ld1": {"fn": cp3_x86_ld1, "tiers": ("quick",), "bound": "n=3, all 8 dependency structures, lat ints in [0,40]; at most one instruction (symbolic position) has a load stage with symbolic wo <= lat; consecutive line numbers or a gap after the first / second line",
                    "budget": {"quick": 170}, "shards": 16},
    "cp3_writeback": {"fn": cp3_writeback, "bound": "n=3, instruction 0 = post-indexed load (data + base write-back); consumers read data or written-back base (edge weight = symbolic p_index_latency 0..10, independent of the producer latency); int latencies 0..40",
                      "budget": {"quick": 170, "thorough": 600}, "shards": 8},
    "cp3_storeload": {"fn": cp3_storeload, "bound": "n=3: producer -> store with its own latency -> load of the same / another location; all int latencies 0..40, forwarding latency 0..20 symbolic; the link through memory weighs store latency + forwarding latency",
                      "budget": {"quick": 170, "thorough": 600}, "shards": 8},
    "examples": {"fn": examples, "bound": "16 shipped example/test kernels on zen1/zen2/tx2 (real parser, ISA data, models): reported CP vs independent longest path over the graph's edges, marked lines form a chain, per-line values add up",
                 "budget": {"quick": 170, "thorough": 300}, "shards": 4},
    "cp_marks": {"fn": cp_marks, "bound": "n=3, all 8 dependency structures, latencies from {0, 1, 3, 12.5}: the lines carrying a value in the CP column of the real text report are linked consecutively by dependencies, form a longest chain of the reference, and the column adds up to the printed CP total (zero-latency members included)",
                 "budget": {"quick": 170, "thorough": 300}, "shards": 16},
    "cp_marks4": {"fn": cp_marks4, "tiers": ("thorough",), "bound": "same for n=4, all 64 structures, latencies from {0, 1, 3}", "budget": {"thorough": 900}, "shards": 16},
    "cp3_x86": {"fn": cp3_x86, "tiers": ("thorough",), "bound": "n=3, all 8 dependency structures, lat/wo ints in [0,40], load stage per instruction symbolic",
                "budget": {"thorough": 900}, "shards": 32},
    "cp3_a64": {"fn": cp3_a64, "tiers": ("thorough",), "bound": "as cp3_x86 with the AArch64 alias predicate", "budget": {"thorough": 900}, "shards": 16},
    "cp3_float": {"fn": cp3_float, "tiers": ("thorough",), "bound": "n=3, latencies real-valued (CrossHair real-based floats) in [0,40], no load stages", "budget": {"thorough": 900}, "shards": 8},
    "cp4_x86": {"fn": cp4_x86, "tiers": ("thorough",), "bound": "n=4, all 64 dependency structures, int latencies in [0,40], load stage on first/last instruction", "budget": {"thorough": 1500}, "shards": 32},
}

META = {
    "functions": ["osaca.semantics.kernel_dg.KernelDG.create_DG", "KernelDG.find_depending", "KernelDG.is_read", "KernelDG.is_written",
                  "KernelDG.get_critical_path", "networkx.dag_longest_path (traced, symbolic weights)",
                  "CP total as in Frontend.full_analysis_dict: sum(latency_cp of returned lines)", "Frontend.full_analysis / combined_view / _get_lcd_cp_ports (CP column; cp_marks cells)"],
    "bounds": "kernels of 3 (quick) / 4 (thorough) instructions, each writing its own register; every dependency structure; all integer latencies 0..40 with 0<=wo<=lat",
    "outside": "n > 4 for generated kernels; shipped kernels other than the 16 listed in harness/_pipeline.py (for those the edge set is taken from the real graph, only the longest-path step is recomputed)",
    "assumptions": ["oracle accepts either reading of 'execution latency of the last instruction' (with or without its own load stage when reached through a predecessor); both are >= every single latency and count a leading load stage once",
                    "alias predicate executed natively on concrete register names (NativeParser)"],
}
