"""C17: two processes populating the same cache concurrently.

The real MachineModel constructor runs twice, in two threads standing for two processes, over one
shared in-memory file system with inode semantics (an open handle keeps pointing at its inode
when the name is renamed or replaced; open('wb') truncates the inode in place; a reader sees a
truncated stream while any writer of that inode has not finished).  Every file-system call is a
scheduling point; a deterministic scheduler hands control over exactly at the (solver-chosen)
global step numbers in `switches` (context-bounded interleavings).  Each "process" has its own
MachineModel._runtime_cache and its own pid.

Everything in here runs on concrete values (the harness picks the schedule first).
"""
import threading

import osaca.semantics.hw_model as hw
from osaca.semantics.hw_model import MachineModel

from vp.api import StubGap

MODEL = "/data/arch.yml"
CACHE_DIR = "/home/u/.osaca/cache"
ABSENT, TRUNC, COMPLETE, STALE = range(4)


class Inode:
    def __init__(self, kind, content=None, state=COMPLETE):
        self.kind, self.content, self.state, self.writers = kind, content, state, 0


class SchedulerStuck(Exception):
    pass


class Sched:
    def __init__(self, switches, first):
        self.switch_at = set(switches)
        self.cur = first
        self.step = 0
        self.done = [False, False]
        self.cv = threading.Condition()
        self.local = threading.local()
        self.trace = []

    def me(self):
        return self.local.tid

    def begin(self, tid):
        self.local.tid = tid
        with self.cv:
            while self.cur != tid:
                if not self.cv.wait(timeout=20):
                    raise SchedulerStuck()

    def point(self, what):
        me = self.local.tid
        with self.cv:
            self.step += 1
            self.trace.append((me, what))
            if self.step in self.switch_at and not self.done[1 - me]:
                self.cur = 1 - me
                self.cv.notify_all()
            while self.cur != me:
                if not self.cv.wait(timeout=20):
                    raise SchedulerStuck()

    def finish(self, tid):
        with self.cv:
            self.done[tid] = True
            if not self.done[1 - tid]:
                self.cur = 1 - tid
            self.cv.notify_all()


class PerProcessDict:
    """MachineModel._runtime_cache is per process"""

    def __init__(self, sched):
        self.s, self.d = sched, {0: {}, 1: {}, None: {}}

    def _cur(self):
        return self.d[getattr(self.s.local, "tid", None)]

    def __contains__(self, k):
        return k in self._cur()

    def __getitem__(self, k):
        return self._cur()[k]

    def __setitem__(self, k, v):
        self._cur()[k] = v

    def get(self, k, default=None):
        return self._cur().get(k, default)

    def clear(self):
        self._cur().clear()

    def __getattr__(self, name):
        raise StubGap("_runtime_cache.%s" % name)


class FS:
    def __init__(self, content, data_writable=True):
        self.files = {MODEL: Inode("yaml", content)}
        self.dirs = {"/data"}
        self.data_writable = data_writable

    def slot(self, where, content):
        return ("/data/.arch_h%d.pickle" % content) if where == "companion" else ("%s/arch_h%d.pickle" % (CACHE_DIR, content))

    def put(self, where, content, state):
        if state == ABSENT:
            return
        if where == "home":
            self.dirs.add(CACHE_DIR)
        self.files[self.slot(where, content)] = Inode("pickle", content, state)

    def writable(self, path):
        return (path.startswith("/data/") and self.data_writable) or (path.startswith(CACHE_DIR + "/") and CACHE_DIR in self.dirs)


def fresh(content):
    return {"content": content, "isa": "x86", "instruction_forms": [], "instruction_forms_dict": {}, "internal_version": MachineModel.INTERNAL_VERSION}


def install(fs, sched):
    pt = sched.point

    class FPath:
        def __init__(self, p):
            self.p = str(p)

        def __str__(self):
            return self.p

        def __fspath__(self):
            return self.p

        def __truediv__(self, other):
            return FPath(self.p.rstrip("/") + "/" + str(other))

        @property
        def name(self):
            return self.p.rsplit("/", 1)[-1]

        @property
        def suffix(self):
            b = self.name
            return "." + b.rsplit(".", 1)[1] if "." in b[1:] else ""

        @property
        def stem(self):
            b = self.name
            return b.rsplit(".", 1)[0] if "." in b[1:] else b

        @property
        def parent(self):
            return FPath(self.p.rsplit("/", 1)[0])

        def with_name(self, name):
            return FPath(self.p.rsplit("/", 1)[0] + "/" + name)

        def with_suffix(self, suf):
            d, b = self.p.rsplit("/", 1)
            head = b.rsplit(".", 1)[0] if "." in b[1:] else b
            return FPath(d + "/" + head + suf)

        def read_bytes(self):
            pt("read_bytes")
            return ("bytes", fs.files[self.p].content)

        def exists(self):
            pt("exists")
            return self.p in fs.files

        def is_file(self):
            return self.exists()

        def open(self, mode="r"):
            return fopen(self.p, mode)

        def unlink(self, missing_ok=False):
            FOS.remove(self.p, _missing_ok=missing_ok)

        def replace(self, target):
            FOS.replace(self.p, target)
            return FPath(target)

        def rename(self, target):
            FOS.replace(self.p, target)
            return FPath(target)

        def __getattr__(self, name):
            raise StubGap("Path.%s" % name)

    class FFile:
        def __init__(self, path, mode):
            self.path, self.mode, self.closed = path, mode, False
            pt("open " + mode)
            if "r" in mode:
                if path not in fs.files:
                    raise FileNotFoundError(path)
                self.inode = fs.files[path]
                if self.inode.kind == "yaml" and "b" not in mode:
                    self.lines = ["id:%d\n" % self.inode.content, "isa: x86\n", "instruction_forms:\n", "- name: nop\n"]
            else:
                if "x" in mode and path in fs.files:
                    raise FileExistsError(path)
                if not fs.writable(path):
                    raise PermissionError(path)
                if path in fs.files and "a" not in mode:
                    self.inode = fs.files[path]            # truncated in place: same inode
                else:
                    self.inode = fs.files.setdefault(path, Inode("pickle", None, TRUNC))
                self.inode.state = TRUNC
                self.inode.writers += 1

        def __enter__(self):
            return self

        def close(self):
            if self.closed:
                return
            self.closed = True
            pt("close")
            if "r" not in self.mode:
                self.inode.writers -= 1
                if self.inode.writers == 0 and getattr(self.inode, "pending", None) is not None:
                    self.inode.state, self.inode.content = self.inode.pending
                    self.inode.pending = None

        def __exit__(self, *a):
            self.close()
            return False

        def flush(self):
            pass

        def fileno(self):
            raise StubGap("file.fileno")

        def readline(self, *a):
            if a:
                raise StubGap("file.readline(size)")
            return self.lines.pop(0) if self.lines else ""

        def read(self, *a):
            if a or not hasattr(self, "lines"):
                raise StubGap("file.read(%r) on %s" % (a, self.mode))
            out = "".join(self.lines)
            self.lines = []
            return out

        def __getattr__(self, name):
            raise StubGap("file.%s" % name)

    def fopen(path, mode="r"):
        return FFile(str(path), mode)

    class FHash:
        @staticmethod
        def sha256(*a):
            if len(a) != 1 or not (isinstance(a[0], tuple) and a[0][0] == "bytes"):
                raise StubGap("hashlib.sha256 used incrementally / on other data")
            b = a[0]

            class D:
                def hexdigest(self_inner):
                    return "h%d" % b[1]

                def __getattr__(self_inner, name):
                    raise StubGap("sha256().%s" % name)
            return D()

        def __getattr__(self, name):
            raise StubGap("hashlib.%s" % name)

    class FPickle:
        UnpicklingError = hw.pickle.UnpicklingError
        PickleError = hw.pickle.PickleError
        HIGHEST_PROTOCOL = hw.pickle.HIGHEST_PROTOCOL

        @staticmethod
        def load(f):
            pt("load")
            ino = f.inode
            if ino.writers > 0 or ino.state == TRUNC:
                raise hw.pickle.UnpicklingError("pickle data was truncated")
            d = fresh(ino.content)
            if ino.state == STALE:
                d["internal_version"] = MachineModel.INTERNAL_VERSION - 1
            return d

        @staticmethod
        def dump(data, f, *a, **k):
            pt("dump-begin")
            f.inode.state = TRUNC
            pt("dump-end")
            ver_ok = data.get("internal_version") == MachineModel.INTERNAL_VERSION
            f.inode.pending = (COMPLETE if ver_ok else STALE, data.get("content"))

    class _OSPath:
        @staticmethod
        def exists(p):
            pt("exists")
            return str(p) in fs.files or str(p) in fs.dirs

        @staticmethod
        def isfile(p):
            pt("exists")
            return str(p) in fs.files

        @staticmethod
        def join(*a):
            return "/".join(str(x).rstrip("/") for x in a)

        @staticmethod
        def dirname(p):
            return str(p).rsplit("/", 1)[0]

        @staticmethod
        def basename(p):
            return str(p).rsplit("/", 1)[-1]

        def __getattr__(self, name):
            raise StubGap("os.path.%s" % name)

    class _FOS:
        W_OK = 2
        R_OK = 4
        path = _OSPath()

        @staticmethod
        def fspath(p):
            return str(p)

        @staticmethod
        def access(path, mode):
            pt("access")
            path = str(path)
            if path == "/data":
                return fs.data_writable
            return path in fs.dirs

        @staticmethod
        def makedirs(path, exist_ok=False, **k):
            pt("makedirs")
            if str(path) in fs.dirs and not exist_ok:
                raise FileExistsError(str(path))
            fs.dirs.add(str(path))

        @staticmethod
        def getpid():
            return 4000 + sched.me()

        @staticmethod
        def replace(src, dst):
            pt("replace")
            src, dst = str(src), str(dst)
            if src not in fs.files:
                raise FileNotFoundError(src)
            if not fs.writable(dst):
                raise PermissionError(dst)
            fs.files[dst] = fs.files.pop(src)

        rename = replace

        @staticmethod
        def remove(path, _missing_ok=False):
            pt("remove")
            path = str(path)
            if path not in fs.files:
                if _missing_ok:
                    return
                raise FileNotFoundError(path)
            del fs.files[path]

        unlink = remove

        def __getattr__(self, name):
            raise StubGap("os.%s" % name)

    FOS = _FOS()

    class FYaml:
        def load(self, f):
            text = f if isinstance(f, str) else f.read()
            cid = int(text.split("\n", 1)[0].split(":")[1])
            return {"content": cid, "isa": "x86", "instruction_forms": []}

    saved = (hw.Path, hw.hashlib, hw.pickle, hw.os, getattr(hw, "open", None), MachineModel._create_yaml_object, hw.utils.CACHE_DIR, MachineModel._runtime_cache)
    hw.Path, hw.hashlib, hw.pickle, hw.os, hw.open = FPath, FHash(), FPickle, FOS, fopen
    MachineModel._create_yaml_object = lambda self: FYaml()
    hw.utils.CACHE_DIR = CACHE_DIR
    MachineModel._runtime_cache = PerProcessDict(sched)
    return saved


def uninstall(saved):
    hw.Path, hw.hashlib, hw.pickle, hw.os = saved[0], saved[1], saved[2], saved[3]
    if saved[4] is None:
        del hw.open
    else:
        hw.open = saved[4]
    MachineModel._create_yaml_object = saved[5]
    hw.utils.CACHE_DIR = saved[6]
    MachineModel._runtime_cache = saved[7]


def invariant(fs):
    for path, ino in fs.files.items():
        if ino.kind == "pickle" and ino.state == COMPLETE and ino.writers == 0 and "_h" in path:
            named = int(path.rsplit("_h", 1)[1].split(".")[0])
            if ino.content != named:
                return False
    return True


def race(switches, first, comp_state, home_state, writable, home_dir_exists=False):
    """two concurrent constructions + one later run; -> (ok, detail, steps)"""
    fs = FS(0, data_writable=writable)
    fs.put("companion", 0, comp_state)
    fs.put("home", 0, home_state)
    if home_dir_exists:
        fs.dirs.add(CACHE_DIR)
    sched = Sched(switches, first)
    saved = install(fs, sched)
    results = [None, None]
    gaps = []

    def proc(tid):
        try:
            sched.begin(tid)
            results[tid] = ("ok", MachineModel(path_to_yaml=MODEL)._data.get("content"))
        except StubGap as e:
            gaps.append(str(e))
            results[tid] = ("gap", str(e))
        except SchedulerStuck:
            results[tid] = ("stuck", None)
        except Exception as e:   # noqa
            results[tid] = ("raised", "%s: %s" % (type(e).__name__, e))
        finally:
            sched.finish(tid)

    try:
        ts = [threading.Thread(target=proc, args=(i,), daemon=True) for i in (0, 1)]
        for t in ts:
            t.start()
        for t in ts:
            t.join(timeout=60)
        if any(t.is_alive() for t in ts) or any(r is None or r[0] == "stuck" for r in results):
            raise SchedulerStuck("scheduler stuck: %r" % (sched.trace,))
        if gaps:
            raise StubGap(gaps[0])
        ok = all(r == ("ok", 0) for r in results) and invariant(fs)
        later = None
        if ok:
            sched2 = Sched([], 0)
            sched2.local.tid = 0
            MachineModel._runtime_cache = PerProcessDict(sched2)
            # the later run uses the same file system but is alone
            saved2 = install(fs, sched2)
            try:
                try:
                    later = ("ok", MachineModel(path_to_yaml=MODEL)._data.get("content"))
                except StubGap:
                    raise
                except Exception as e:   # noqa
                    later = ("raised", "%s: %s" % (type(e).__name__, e))
            finally:
                hw.Path, hw.hashlib, hw.pickle, hw.os, hw.open = saved2[0], saved2[1], saved2[2], saved2[3], saved2[4]
            ok = later == ("ok", 0) and invariant(fs)
        return ok, {"process_results": results, "later_run": later, "trace": ["P%d %s" % x for x in sched.trace]}, sched.step
    finally:
        uninstall(saved)
