"""C09 - x86 AT&T parser recovers every line and operand exactly as written  (weakest fit).

The pyparsing grammar cannot be executed symbolically here (DESIGN C09/C10).  What is decided:
the instruction AST (operand variants, operand count, layout, mnemonic) and the file structure
are chosen by the solver and enumerated to exhaustion; on each path the line is rendered
concretely and the REAL parser runs natively; results are compared field by field.  The
line-number bookkeeping of parse_file is checked with a symbolic start line (traced).
"""
from osaca.parser import ParserX86ATT

from harness import _asm
from harness._parsercells import make

P = ParserX86ATT()
ALL = _asm.x86_operands()
VARIANTS = [v for v in ALL if v[1][0] != "id"]
LONE = [v for v in ALL if v[1][0] in ("id",)] + [v for v in ALL if v[1][0] == "mem"][:8]
FILE_LINES = [("", "blank"), ("   ", "blank"), ("\t", "blank"), ("# a comment", "comment"), ("  # indented comment", "comment"), (".L5:", "label"), (".L6:   # with comment", "label"),
              (".p2align 4,,10", "directive"), ("\t.byte 100,103,144 # marker", "directive"), ("\tvaddpd\t%xmm1, %xmm2, %xmm3", "instruction"), ("movq 8(%rax,%rcx,4), %rdx # load", "instruction"), ("ret", "instruction"),
              ("  ret", "instruction"), ("ret  ", "instruction"), ("# a comment  ", "comment")]      # same content, other white space

CELLS = make("x86", P, VARIANTS, LONE, _asm.X86_LAYOUTS, _asm.render_x86, _asm.line_ok, "#", ["movq", "vfmadd231pd", "jmp"], FILE_LINES)

META = {
    "functions": ["ParserX86ATT.parse_line", "parse_instruction", "process_operand", "process_memory_address", "process_immediate", "process_register", "BaseParser.parse_file", "the pyparsing grammar (native)"],
    "bounds": "the rendered finite AST family described per cell; each path one concrete native parse",
    "outside": "all lines outside the rendered family: arbitrary numerals, arbitrary whitespace runs, directive parameter grammar, segment overrides, instruction prefixes (rep/lock), AVX-512 masks, identifiers as non-first operands",
    "assumptions": ["grammar witnesses: the solver contributes the exhaustive case split only (weakest form of the technique, reported as such)"],
}
