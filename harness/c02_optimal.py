"""C02 - optimised schedule never worse than uniform, close to the exact optimum.

The property's own bounded family: every ordered kernel of length <= 4 over the 7 one-cycle
single-micro-op forms on the non-empty subsets of 3 ports, length <= 3 with the 7 two-cycle
forms added (5355 kernels).  Form indices, kernel length and pass count are symbolic; the
solver's path exhaustion enumerates the family, each path = one native IEEE run of the real
balancer, compared with the exact optimum (max over port subsets S of confined cycles / |S|).
"""
from vp.api import verdict, skip, shard
from vp.symx import pick, native
from harness._ports import PORTS3, subsets, run_opt, exact_optimum

SUB3 = subsets(3)
FORMS14 = [(c, s) for c in (1, 2) for s in SUB3]   # index < 7: one-cycle forms


def _c02_concrete(forms, passes):
    instrs = [[FORMS14[f]] for f in forms]
    sem, kernel, uniform, opt = run_opt(PORTS3, instrs, passes)
    exact = exact_optimum(3, [FORMS14[f] for f in forms])
    mo, mu = max(opt), max(uniform)
    # "never worse than uniform" and "never undercuts the optimum" hold for every number of
    # passes; the 0.15-cycle closeness is a statement about the *reported* bottleneck, i.e.
    # the CLI's two passes (a single pass is up to 0.5 cy away on 450 of the 5355 kernels)
    ok = mo <= mu + 1e-9 and mo >= exact - 0.011 and (passes != 2 or mo <= exact + 0.15)
    return ok, mu > exact + 1e-9, {"kernel": [list(map(list, [[FORMS14[f][0]], FORMS14[f][1]])) for f in forms], "passes": passes,
                                  "uniform": mu, "optimised": mo, "exact": exact}


def _run(forms, twice):
    ok, nt, sample = native(_c02_concrete, forms, 2 if twice else 1)
    return verdict(ok, nontrivial=nt, sample=sample)


def one_cycle(n: int, f0: int, f1: int, f2: int, f3: int, twice: bool) -> bool:
    """
    pre: 1 <= n <= 4 and 0 <= f0 < 7 and 0 <= f1 < 7 and 0 <= f2 < 7 and 0 <= f3 < 7
    post: _
    """
    if skip(locals()):
        return True
    lo, hi = shard(49)
    if not (lo <= f0 * 7 + f1 < hi):
        return True
    nn = pick(n - 1, 4) + 1
    fs = [pick(f0, 7), pick(f1, 7), pick(f2, 7), pick(f3, 7)]
    if any(f != 0 for f in fs[nn:]):
        return True   # unused slots: one representative
    return _run(fs[:nn], twice)


def with_two_cycle(n: int, f0: int, f1: int, f2: int, twice: bool) -> bool:
    """
    pre: 1 <= n <= 3 and 0 <= f0 < 14 and 0 <= f1 < 14 and 0 <= f2 < 14
    post: _
    """
    if skip(locals()):
        return True
    lo, hi = shard(14)
    if not (lo <= f0 < hi):
        return True
    nn = pick(n - 1, 3) + 1
    fs = [pick(f0, 14), pick(f1, 14), pick(f2, 14)]
    if any(f != 0 for f in fs[nn:]):
        return True
    if all(f < 7 for f in fs[:nn]):
        return True   # purely one-cycle kernels are covered by one_cycle
    return _run(fs[:nn], twice)


def _alt_concrete(forms, pos, alt, passes):
    """single-micro-op kernel; the instruction at pos has a second alternative port assignment"""
    from harness._ports import build_kernel, uop
    from osaca.semantics import ArchSemantics
    fl = [FORMS14[f] for f in forms]
    sem, model, kernel = build_kernel(PORTS3, [[f] for f in fl])
    a0, a1 = uop(PORTS3, *fl[pos]), uop(PORTS3, *FORMS14[alt])
    kernel[pos].port_uops = {0: [a0], 1: [a1]}
    kernel[pos].port_pressure = model.average_port_pressure({0: [a0], 1: [a1]})
    uniform = max(ArchSemantics.get_throughput_sum(kernel))
    for _ in range(passes):
        sem.assign_optimal_throughput(kernel)
    mo = max(ArchSemantics.get_throughput_sum(kernel))
    # exact optimum when the better alternative may be chosen
    e0 = exact_optimum(3, fl)
    e1 = exact_optimum(3, fl[:pos] + [FORMS14[alt]] + fl[pos + 1:])
    ok = mo <= uniform + 1e-9 and mo >= min(e0, e1) - 0.011
    return ok, e1 < e0 - 1e-9 or e0 < e1 - 1e-9, {"kernel": forms, "alt_pos": pos, "alt": alt, "passes": passes, "uniform_default": uniform, "optimised": mo, "exact": [e0, e1]}


def alternatives(f0: int, f1: int, f2: int, alt: int, pos: int, twice: bool) -> bool:
    """
    pre: 0 <= f0 < 7 and 0 <= f1 < 7 and 0 <= f2 < 7 and 0 <= alt < 7 and 0 <= pos < 3
    post: _
    """
    if skip(locals()):
        return True
    lo, hi = shard(49)
    if not (lo <= f0 * 7 + f1 < hi):
        return True
    fs = [pick(f0, 7), pick(f1, 7), pick(f2, 7)]
    p, a = pick(pos, 3), pick(alt, 7)
    if a == fs[p]:
        return True
    ok, nt, sample = native(_alt_concrete, fs, p, a, 2 if twice else 1)
    return verdict(ok, nontrivial=nt, sample=sample)


# ---- the reported (CLI) bottleneck on a shipped model -------------------------------------------------

_HSW = {}


def _hsw_forms():
    """one xmm,xmm instruction of hsw per port set over {0,1,5}, single one-cycle micro-op (read from
    the model as loaded from the working tree)"""
    if not _HSW:
        from harness._pipeline import model
        m, _ = model("hsw")
        from osaca.parser.register import RegisterOperand
        found = {}
        for name, forms in sorted(m._data["instruction_forms_dict"].items()):
            for f in forms:
                pp = f.port_pressure
                if (len(f.operands) == 2 and all(isinstance(o, RegisterOperand) and o.name == "xmm" for o in f.operands)
                        and isinstance(pp, list) and len(pp) == 1 and pp[0][0] == 1 and isinstance(pp[0][1], str)
                        and set(pp[0][1]) <= set("015") and name.isalpha() and f.throughput is not None):
                    found.setdefault("".join(sorted(pp[0][1])), name.lower())
        _HSW["forms"] = sorted(found.items())
    return _HSW["forms"]


def _cli_concrete(i, j, k):
    import os
    import re
    import tempfile
    from harness._pipeline import run_cli
    forms = _hsw_forms()
    sel = [forms[x % len(forms)] for x in (i, j, k)]
    text = "".join("%s %%xmm%d, %%xmm%d\n" % (mn, 2 * n, 2 * n + 1) for n, (_, mn) in enumerate(sel))
    with tempfile.TemporaryDirectory() as td:
        path = os.path.join(td, "k.s")
        open(path, "w").write(text)
        out = run_cli(path, ["--arch", "hsw"])
    body = out[out.index("Combined Analysis Report"):out.index("Loop-Carried Dependencies Analysis Report")]
    tot = [l for l in body.split("\n") if l.startswith("      ") and re.search(r"\d", l) and "|" not in l]
    nums = [float(x) for x in tot[0].split()][:-2]
    reported = max(nums)
    uops = [(1, tuple("015".index(c) for c in ports)) for ports, _ in sel]
    exact = exact_optimum(3, uops)
    uniform = max(sum(1 / len(ix) for _, ix in uops if q in ix) for q in range(3))
    ok = reported <= exact + 0.15 + 0.005 and reported >= exact - 0.011 - 0.005 and reported <= uniform + 0.005
    return ok, uniform > exact + 1e-9, {"kernel": [mn for _, mn in sel], "ports": [p for p, _ in sel], "reported": reported, "exact": exact, "uniform": uniform}


def cli_reported(i: int, j: int, k: int) -> bool:
    """
    pre: 0 <= i < 7 and 0 <= j < 7 and 0 <= k < 7
    post: _
    """
    # what the osaca command reports (its own number of balancing passes) for 3-instruction kernels
    # of real hsw instructions, one per available port set over {0,1,5}
    if skip(locals()):
        return True
    lo, hi = shard(49)
    if not (lo <= i * 7 + j < hi):
        return True
    n = len(native(_hsw_forms))
    a, b, c = pick(i, 7), pick(j, 7), pick(k, 7)
    if a >= n or b >= n or c >= n:
        return True
    ok, nt, sample = native(_cli_concrete, a, b, c)
    return verdict(ok, nontrivial=nt, sample=sample)


CELLS = {
    "one_cycle": {"fn": one_cycle, "bound": "all 2800 ordered kernels of length 1..4 over the 7 one-cycle forms x {1,2} passes",
                  "budget": {"quick": 170, "thorough": 600}, "shards": 16},
    "alternatives": {"fn": alternatives, "bound": "3 one-cycle single-micro-op instructions, the one at each position with a second alternative port assignment x {1,2} passes: never worse than the default assignment's uniform bottleneck, never below the best alternative's optimum",
                     "budget": {"quick": 170, "thorough": 600}, "shards": 16},
    "cli_reported": {"fn": cli_reported, "bound": "the real CLI (osaca.run) on hsw: every ordered 3-instruction kernel over one real xmm instruction per available port set of {0,1,5}; the reported bottleneck (totals line) vs exact optimum and uniform",
                     "budget": {"quick": 400, "thorough": 600}, "shards": 16},
    "with_two_cycle": {"fn": with_two_cycle, "bound": "all 2555 ordered kernels of length 1..3 over 14 forms containing a two-cycle form x {1,2} passes",
                       "budget": {"quick": 170, "thorough": 600}, "shards": 14},
}

META = {
    "functions": ["ArchSemantics.assign_optimal_throughput", "ArchSemantics.get_throughput_sum", "MachineModel.average_port_pressure"],
    "bounds": "the property's bounded family (5355 kernels over 3 ports) x one or two balancing passes",
    "outside": "'random exploration over all kernels x all models' (sampling is not this technique); multi-micro-op instructions and alternatives (structural part in C01)",
    "assumptions": ["exact optimum by Hall/LP duality computed by subset enumeration in harness/_ports.py",
                    "each path is a concrete IEEE run; the solver contributes the exhaustive enumeration of the family"],
}
