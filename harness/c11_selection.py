"""C11 - kernel selection is exact; non-instruction lines are transparent.

markers_* : reduce_to_section / find_marked_section / match_bytes on lists of real parsed lines
            (templates parsed natively by the real parsers); the marker immediates and the
            immediates of look-alike mov instructions are symbolic ints (all integers), the
            file layout (prologue/body/epilogue lengths, decoy kinds, marker style) is symbolic.
lines_*   : osaca.get_line_range on rendered strings, and selection by symbolic line numbers.
transparency : end-to-end on shipped models (zen1, tx2; real parser, real ISA DB): the analysis
            of a marked file, of the same file with --lines, of the bare kernel, and of the
            kernel with comment/label/directive/blank lines inserted (symbolic positions) agree.
"""
import copy

from osaca.osaca import get_line_range
from osaca.parser.immediate import ImmediateOperand
from osaca.semantics import reduce_to_section

from vp.api import verdict, skip, shard
from vp.symx import pick, native, NoTracing
from vp.synth import PX, PA

TPL = {
    "x86": {"body": "addq %rax, %rdx", "mov": "movl $111, %ebx", "mov_other": "movl $111, %ecx", "bytes": ".byte 100,103,144",
            "b1": [".byte 100", ".byte 103", ".byte 144"], "bytes_more": ".byte 100,103,144,9", "prefix": ".byte 100,103", "wrong": ".byte 1,2,3",
            "begin": "# OSACA-BEGIN", "end": "# OSACA-END", "comment": "# something else", "label": ".L7:", "directive": ".p2align 4"},
    "aarch64": {"body": "add x2, x3, x4", "mov": "mov x1, #111", "mov_other": "mov x2, #111", "bytes": ".byte 213,3,32,31",
                "b1": [".byte 213", ".byte 3", ".byte 32", ".byte 31"], "bytes_more": ".byte 213,3,32,31,9", "prefix": ".byte 213,3", "wrong": ".byte 1,2,3,4",
                "begin": "// OSACA-BEGIN", "end": "// OSACA-END", "comment": "// something else", "label": ".L7:", "directive": ".p2align 4"},
}
_P = {}


def line(isa, key, imm=None, sub=None):
    k = (isa, key, sub)
    if k not in _P:
        with NoTracing():
            txt = TPL[isa][key] if sub is None else TPL[isa][key][sub]
            _P[k] = (PX if isa == "x86" else PA).parse_line(txt, 0)
    with NoTracing():
        f = copy.deepcopy(_P[k])
    if imm is not None:
        for i, o in enumerate(f.operands):
            if isinstance(o, ImmediateOperand):
                f.operands[i] = ImmediateOperand(imd_type=o.imd_type, value=imm)
    return f


def decoy(isa, kind, w):
    """look-alikes that are NOT markers (w: symbolic immediate)"""
    if kind == 0:
        return [line(isa, "body")]
    if kind == 1:
        return [line(isa, "mov", imm=w), line(isa, "body")]              # mov $w -> marker register, but no .byte follows
    if kind == 2:
        return [line(isa, "mov_other", imm=w), line(isa, "bytes")]       # another register
    if kind == 3:
        return [line(isa, "mov", imm=w), line(isa, "wrong")]             # wrong bytes
    if kind == 4:
        return [line(isa, "mov", imm=w), line(isa, "prefix")]            # proper prefix of the nop bytes only
    if kind == 5:
        return [line(isa, "comment")]
    if kind == 6:
        return [line(isa, "label")]
    return [line(isa, "directive")]


def marker(isa, style, val, which):
    """style 0: bytes on one line, 1: one byte per line, 2: comment marker, 3: extra byte appended"""
    if style == 2:
        return [line(isa, "begin" if which == 0 else "end")]
    m = [line(isa, "mov", imm=val)]
    if style == 0:
        return m + [line(isa, "bytes")]
    if style == 3:
        return m + [line(isa, "bytes_more")]
    return m + [line(isa, "b1", sub=i) for i in range(len(TPL[isa]["b1"]))]


def _markers(isa, p, b, e, dk, style, v1, v2, w):
    pro = []
    for _ in range(p):
        pro += decoy(isa, dk[0], w)
    body = []
    for _ in range(b):
        body += decoy(isa, dk[1], w)
    epi = []
    for _ in range(e):
        epi += decoy(isa, dk[2], w)
    sm = marker(isa, style, v1, 0)
    em = marker(isa, style, v2, 1)
    lines = pro + sm + body + em + epi
    for i, l in enumerate(lines):
        l.line_number = i + 1
    got = reduce_to_section(lines, isa)
    # ---- reference: what is a marker?  (decoys of kinds 1-4 with w == 111/222 are still no markers:
    # wrong register / no bytes / wrong bytes)
    start_real = style == 2 or v1 == 111
    end_real = style == 2 or v2 == 222
    # a "start" mov carrying 222 (or an "end" mov carrying 111) is a marker of the other kind:
    # outside the generated family
    if style != 2 and (v1 == 222 or v2 == 111):
        return None
    if start_real and end_real:
        want = body
    elif not start_real and not end_real:
        want = lines
    else:
        return None          # exactly one marker present: not specified by the statement
    ok = len(got) == len(want) and all(x is y for x, y in zip(got, want))
    return ok, bool(start_real and end_real), lambda: {"isa": isa, "p": p, "b": b, "e": e, "decoys": dk, "style": style, "v1": v1, "v2": v2, "w": w,
                                                    "selected": [l.line_number for l in want]}


def _mk(isa, p, b, e, d, style, v1, v2, w):
    lo, hi = shard(12)
    if not (lo <= p * 6 + b * 2 + e < hi):
        return True
    pp, bb, ee = pick(p, 2), pick(b, 3), pick(e, 2)
    dk = pick(d, 8)
    if pp + bb + ee == 0 and dk != 0:
        return True
    r = _markers(isa, pp, bb, ee, [dk, dk, dk], pick(style, 4), v1, v2, w)
    if r is None:
        return True
    return verdict(r[0], nontrivial=r[1], sample=r[2])


def markers_x86(p: int, b: int, e: int, d: int, style: int, v1: int, v2: int, w: int) -> bool:
    """
    pre: 0 <= p <= 1 and 0 <= b <= 2 and 0 <= e <= 1 and 0 <= d < 8 and 0 <= style < 4
    post: _
    """
    if skip(locals()):
        return True
    return _mk("x86", p, b, e, d, style, v1, v2, w)


def markers_a64(p: int, b: int, e: int, d: int, style: int, v1: int, v2: int, w: int) -> bool:
    """
    pre: 0 <= p <= 1 and 0 <= b <= 2 and 0 <= e <= 1 and 0 <= d < 8 and 0 <= style < 4
    post: _
    """
    if skip(locals()):
        return True
    return _mk("aarch64", p, b, e, d, style, v1, v2, w)


# ---- --lines -------------------------------------------------------------------------------------

def _lines_concrete(a, b, c, form):
    sep = "-" if form % 2 == 0 else ":"
    if form < 2:
        s, want = "%d%s%d" % (a, sep, b), list(range(a, b + 1))
    elif form < 4:
        s, want = "%d,%d%s%d" % (c, a, sep, b), [c] + list(range(a, b + 1))
    elif form < 6:
        s, want = "%d%s%d,%d" % (a, sep, b, c), list(range(a, b + 1)) + [c]
    elif form == 6:
        s, want = "%d" % a, [a]
    else:
        s, want = "%d,%d,%d" % (a, b, c), [a, b, c]
    got = get_line_range(s)
    return sorted(set(got)) == sorted(set(want)), len(want) > 0, {"arg": s, "lines": sorted(set(want))}


def lines_arg(a: int, b: int, c: int, form: int) -> bool:
    """
    pre: 0 <= a <= 12 and 0 <= b <= 12 and 0 <= c <= 12 and 0 <= form < 8
    post: _
    """
    if skip(locals()):
        return True
    lo, hi = shard(13)
    if not (lo <= a < hi):
        return True
    if (form == 0 or form == 1 or form == 6) and c != 0:
        return True    # c unused in these forms
    if form == 6 and b != 0:
        return True
    ok, nt, sample = native(_lines_concrete, pick(a, 13), pick(b, 13), pick(c, 13), pick(form, 8))
    return verdict(ok, nontrivial=nt, sample=sample)


def lines_select(n0: int, n1: int, n2: int, n3: int, lo: int, hi: int) -> bool:
    """
    pre: 1 <= n0 < n1 < n2 < n3 <= 100000 and 0 <= lo <= hi <= 100000 and hi - lo <= 6
    post: _
    """
    # selection by (symbolic) line number as osaca.inspect does it, range from the real expander
    if skip(locals()):
        return True
    parsed = [line("x86", "body") for _ in range(4)]
    for f, n in zip(parsed, (n0, n1, n2, n3)):
        f.line_number = n
    with NoTracing():
        pass
    rng = list(range(lo, hi + 1))     # what get_line_range yields for 'lo-hi' (checked in lines_arg)
    kernel = [l for l in parsed if l.line_number in rng]
    want = [f for f in parsed if lo <= f.line_number <= hi]
    ok = len(kernel) == len(want) and all(x is y for x, y in zip(kernel, want))
    return verdict(ok, nontrivial=len(want) > 0, sample=lambda: {"line_numbers": [n0, n1, n2, n3], "range": [lo, hi]})


# ---- transparency / three input variants (native, shipped models) ---------------------------------

KERNELS = {
    # two accumulators of equal latency: two loop-carried cycles tie for the maximum (which one the LCD column
    # marks must not depend on where the kernel sits in the file)
    "x86_tie": ("zen1", [".L1:", "vmovupd (%rsi,%rax), %ymm0", "vaddpd %ymm0, %ymm3, %ymm3", "vaddpd %ymm0, %ymm4, %ymm4", "vmulpd %ymm0, %ymm5, %ymm5",
                         "addq $32, %rax", "cmpq %rcx, %rax", "jne .L1"],
                ["# noise", ".L99:", ".p2align 4,,10", "", "#", "# BEGIN"], "#",
                ["movl $111, %ebx", ".byte 100,103,144"], ["movl $222, %ebx", ".byte 100,103,144"]),
    "x86": ("zen1", [".L1:", "vmovupd (%rsi,%rax), %ymm0", "vfmadd213pd (%rdx,%rax), %ymm1, %ymm0", "vmovupd %ymm0, (%rdi,%rax)",
                     "vaddpd %ymm2, %ymm3, %ymm3", "addq $32, %rax", "cmpq %rcx, %rax", "jne .L1"],
            ["# noise", ".L99:", ".p2align 4,,10", "", "#", "# BEGIN"], "#",
            ["movl $111, %ebx", ".byte 100,103,144"], ["movl $222, %ebx", ".byte 100,103,144"]),
    "aarch64": ("tx2", [".L1:", "ldr q0, [x1, x3]", "fmla v2.2d, v0.2d, v1.2d", "str q2, [x2, x3]", "add x3, x3, 16", "fadd v4.2d, v4.2d, v0.2d",
                        "cmp x3, x4", "bne .L1"],
                ["// noise", ".L99:", ".p2align 4,,10", "", "//", "// OSACA"], "//",
                ["mov x1, #111", ".byte 213,3,32,31"], ["mov x1, #222", ".byte 213,3,32,31"]),
}


def _marks(report):
    """(instruction text, CP cell, LCD cell) of the lines the text report marks in its CP / LCD columns"""
    import re
    body = report[report.index("Combined Analysis Report"):report.index("Loop-Carried Dependencies Analysis Report")]
    out = []
    for l in body.split("\n"):
        if re.match(r"^\s*\d+ \|", l):
            parts = l.split("|")
            cp, lcd = parts[-3].strip(), parts[-2].strip()
            if cp or lcd:
                out.append((parts[-1][4:].strip(), cp, lcd))
    return out


def _key(r):
    return (r["instr"], r["edges"], r["lcd"], r["summary"]["ports"], r["summary"]["cp"], r["summary"]["lcd"], _marks(r["report"]))


_BASE = {}


def _transparency_concrete(isa, mask, noise_kind, variant, fixed):
    from harness._pipeline import analyze
    arch, body, noises, cmt, smark, emark = KERNELS[isa]
    if (isa, fixed) not in _BASE:
        _BASE[(isa, fixed)] = _key(analyze("\n".join(body) + "\n", arch, whole=True, fixed=fixed))
    lines = []
    for i, l in enumerate(body):
        if mask >> i & 1:
            lines.append(noises[noise_kind])
        lines.append(l)
    pro = ["pushq %rbp" if isa.startswith("x86") else "mov x9, x10", cmt + " prologue"]
    epi = ["ret", cmt + " epilogue"]
    if variant == 0:      # bare kernel with noise lines
        r = analyze("\n".join(lines) + "\n", arch, whole=True, fixed=fixed)
    elif variant == 1:    # byte markers
        r = analyze("\n".join(pro + smark + lines + emark + epi) + "\n", arch, fixed=fixed)
    elif variant == 2:    # comment markers
        r = analyze("\n".join(pro + [cmt + " OSACA-BEGIN"] + lines + [cmt + " OSACA-END"] + epi) + "\n", arch, fixed=fixed)
    else:                 # --lines naming the marked lines
        first = len(pro) + len(smark) + 1
        r = analyze("\n".join(pro + smark + lines + emark + epi) + "\n", arch, lines="%d-%d" % (first, first + len(lines) - 1), fixed=fixed)
    return _key(r) == _BASE[(isa, fixed)], True, {"isa": isa, "mask": mask, "noise": noises[noise_kind], "variant": ["bare", "byte markers", "comment markers", "--lines"][variant], "fixed": fixed}


def transparency(a64: bool, mask: int, noise_kind: int, variant: int, fixed: bool) -> bool:
    """
    pre: 0 <= mask < 256 and 0 <= noise_kind < 6 and 0 <= variant < 4
    post: _
    """
    if skip(locals()):
        return True
    lo, hi = shard(256)
    if not (lo <= mask < hi):
        return True
    if fixed and (variant != 0 or noise_kind != 0):
        return True    # --fixed: bare variant with comment noise only
    ok, nt, sample = native(_transparency_concrete, "aarch64" if a64 else "x86", pick(mask, 256), pick(noise_kind, 6), pick(variant, 4), True if fixed else False)
    return verdict(ok, nontrivial=nt, sample=sample)


def transparency_quick(a64: bool, mask: int, noise_kind: int, variant: int) -> bool:
    """
    pre: 0 <= mask < 256 and 0 <= noise_kind < 6 and 0 <= variant < 4
    post: _
    """
    # quick tier: noise at <= 1 position
    if skip(locals()):
        return True
    ms = [0] + [1 << i for i in range(8)]
    if all(mask != x for x in ms):
        return True
    m = pick(mask, 256)
    if not (shard(9)[0] <= ms.index(m) < shard(9)[1]):
        return True
    ok, nt, sample = native(_transparency_concrete, "aarch64" if a64 else "x86", m, pick(noise_kind, 6), pick(variant, 4), False)
    return verdict(ok, nontrivial=nt, sample=sample)


def _long_concrete(isa, n_noise, noise_kind, pos, variant):
    """enough noise lines that the kernel crosses KernelDG.INSTRUCTION_THRESHOLD (other LCD search)"""
    from harness._pipeline import analyze
    arch, body, noises, cmt, smark, emark = KERNELS[isa]
    if (isa, False) not in _BASE:
        _BASE[(isa, False)] = _key(analyze("\n".join(body) + "\n", arch, whole=True))
    lines = []
    for i, l in enumerate(body):
        if i == pos:
            lines += [noises[noise_kind] if noise_kind != 1 else ".L9%d:" % j for j in range(n_noise)]
        lines.append(l)
    pro = ["pushq %rbp" if isa.startswith("x86") else "mov x9, x10", cmt + " prologue"]
    epi = ["ret", cmt + " epilogue"]
    if variant == 0:
        r = analyze("\n".join(lines) + "\n", arch, whole=True)
    elif variant == 1:
        r = analyze("\n".join(pro + smark + lines + emark + epi) + "\n", arch)
    else:
        first = len(pro) + len(smark) + 1
        r = analyze("\n".join(pro + smark + lines + emark + epi) + "\n", arch, lines="%d-%d" % (first, first + len(lines) - 1))
    return _key(r) == _BASE[(isa, False)] and not r["timed_out"], r["n_lines"] >= 50, {"isa": isa, "noise_lines": n_noise, "noise": noises[noise_kind], "before_line": pos, "variant": ["bare", "byte markers", "--lines"][variant]}


def transparency_long(a64: bool, n: int, noise_kind: int, pos: int, variant: int) -> bool:
    """
    pre: 40 <= n <= 44 and 0 <= noise_kind < 4 and 0 <= pos < 8 and 0 <= variant < 3
    post: _
    """
    if skip(locals()):
        return True
    lo, hi = shard(16)
    if not (lo <= (n - 40) * 4 + noise_kind < hi):
        return True
    ok, nt, sample = native(_long_concrete, "aarch64" if a64 else "x86", pick(n - 40, 5) + 40, pick(noise_kind, 4), pick(pos, 8), pick(variant, 3))
    return verdict(ok, nontrivial=nt, sample=sample)


def transparency_long_quick(a64: bool, n: int, noise_kind: int, pos: int, variant: int) -> bool:
    """
    pre: 41 <= n <= 43 and 0 <= noise_kind < 4 and 0 <= pos < 8 and 0 <= variant < 3
    post: _
    """
    if skip(locals()):
        return True
    lo, hi = shard(12)
    if not (lo <= (n - 41) * 4 + noise_kind < hi):
        return True
    if pos % 3 != 1 or variant == 1:
        return True
    ok, nt, sample = native(_long_concrete, "aarch64" if a64 else "x86", pick(n - 41, 3) + 41, pick(noise_kind, 4), pick(pos, 8), pick(variant, 3))
    return verdict(ok, nontrivial=nt, sample=sample)


def _far_concrete(isa, start, variant, tail):
    """the same kernel far down in a long file (line numbers around and beyond 1000)"""
    from harness._pipeline import analyze
    arch, body, noises, cmt, smark, emark = KERNELS[isa]
    body = body[:len(body) - tail]          # tail > 0: the selection ends on an instruction that is on a dependency cycle
    k = (isa, "far", tail)
    if k not in _BASE:
        _BASE[k] = _key(analyze("\n".join(body) + "\n", arch, whole=True))
    pad = [cmt + " filler"] * (start - 1)
    if variant == 0:      # byte markers
        pad = pad[:max(0, len(pad) - len(smark))]
        r = analyze("\n".join(pad + smark + body + emark + ["ret"]) + "\n", arch)
        first = len(pad) + len(smark) + 1
    elif variant == 1:    # --lines
        r = analyze("\n".join(pad + body + ["ret"]) + "\n", arch, lines="%d-%d" % (len(pad) + 1, len(pad) + len(body)))
        first = len(pad) + 1
    else:                 # whole file, blank lines in front
        r = analyze("\n" * (start - 1) + "\n".join(body) + "\n", arch, whole=True)
        first = start
    return _key(r) == _BASE[k], first + len(body) - 1 >= 1000, {"isa": isa, "kernel_lines": [first, first + len(body) - 1], "variant": ["byte markers", "--lines", "whole file after blank lines"][variant]}


def transparency_far(kern: int, start: int, variant: int, tail: int) -> bool:
    """
    pre: 0 <= kern < 3 and 985 <= start <= 1004 and 0 <= variant < 3 and 0 <= tail <= 3
    post: _
    """
    if skip(locals()):
        return True
    lo, hi = shard(20)
    if not (lo <= start - 985 < hi):
        return True
    ok, nt, sample = native(_far_concrete, ["x86", "aarch64", "x86_tie"][pick(kern, 3)], pick(start - 985, 20) + 985, pick(variant, 3), pick(tail, 4))
    return verdict(ok, nontrivial=nt, sample=sample)


def transparency_far_quick(kern: int, start: int, variant: int, tail: int) -> bool:
    """
    pre: 0 <= kern < 3 and 993 <= start <= 1000 and 0 <= variant < 3 and 0 <= tail <= 3
    post: _
    """
    if skip(locals()):
        return True
    if tail == 2:
        return True
    lo, hi = shard(8)
    if not (lo <= start - 993 < hi):
        return True
    ok, nt, sample = native(_far_concrete, ["x86", "aarch64", "x86_tie"][pick(kern, 3)], pick(start - 993, 8) + 993, pick(variant, 3), pick(tail, 4))
    return verdict(ok, nontrivial=nt, sample=sample)


def transparency_far2(a64: bool, start: int, variant: int, tail: int) -> bool:
    """
    pre: 0 <= start < 6 and 0 <= variant < 3 and 0 <= tail <= 3
    post: _
    """
    if skip(locals()):
        return True
    st = [1500, 1999, 2000, 2001, 3007, 12000][pick(start, 6)]
    ok, nt, sample = native(_far_concrete, "aarch64" if a64 else "x86", st, pick(variant, 3), pick(tail, 4))
    return verdict(ok, nontrivial=nt, sample=sample)


# ---- the real CLI: marked file vs. every spelling of the same line set with --lines ------------------

def _spellings(first, last):
    """--lines strings that all name exactly the set first..last (file order is fixed by the file)"""
    mid = (first + last) // 2
    nums = list(range(first, last + 1))
    return [
        "%d-%d" % (first, last),
        "%d:%d" % (first, last),
        ",".join(str(n) for n in nums),
        ",".join(str(n) for n in reversed(nums)),                         # descending enumeration
        "%d-%d,%d-%d" % (mid + 1, last, first, mid),                      # ranges in the wrong order
        "%d-%d,%d:%d" % (first, last, first + 1, mid),                    # overlapping ranges
        "%d,%d-%d,%d" % (mid, first, last, mid),                          # a number inside a range, twice
        "%d-%d,%d-%d" % (first, mid, mid, last),                          # ranges sharing an end point
        "%d,%d-%d" % (last, first, last - 1),                             # last line first
        "0,%d-%d,%d" % (first, last, last + 1000),                        # numbers of lines that do not exist
    ]


def _strip_cmdline(out):
    # the header echoes the command line / file name and carries a timestamp; everything else has to agree
    return "\n".join(l for l in out.splitlines() if not l.startswith("Open Source Architecture Code Analyzer") and "--lines" not in l and "Command line" not in l and not l.startswith("Timestamp:"))


_CLI_BASE = {}


def _cli_lines_concrete(isa, spelling, noise_mask):
    import os
    import tempfile
    from harness._pipeline import run_cli
    arch, body, noises, cmt, smark, emark = KERNELS[isa]
    lines = []
    for i, l in enumerate(body):
        if noise_mask >> i & 1:
            lines.append(noises[i % len(noises)])
        lines.append(l)
    pro = ["pushq %rbp" if isa.startswith("x86") else "mov x9, x10", cmt + " prologue"]
    epi = ["ret", cmt + " epilogue"]
    text = "\n".join(pro + [cmt + " OSACA-BEGIN"] + lines + [cmt + " OSACA-END"] + epi) + "\n"
    first = len(pro) + 2
    last = first + len(lines) - 1
    arg = _spellings(first, last)[spelling]
    with tempfile.TemporaryDirectory() as td:
        path = os.path.join(td, "k.s")
        with open(path, "w") as f:
            f.write(text)
        k = (isa, noise_mask)
        if k not in _CLI_BASE:
            _CLI_BASE[k] = _strip_cmdline(run_cli(path, ["--arch", arch])).replace(td, "")
        got = _strip_cmdline(run_cli(path, ["--arch", arch, "--lines", arg])).replace(td, "")
    want = _CLI_BASE[k]
    ok = got == want and "Loop-Carried Dependencies Analysis Report" in got
    return ok, True, {"isa": isa, "lines_arg": arg, "kernel_lines": [first, last], "noise_mask": noise_mask}


def cli_lines(a64: bool, spelling: int, noise: int) -> bool:
    """
    pre: 0 <= spelling < 10 and 0 <= noise < 3
    post: _
    """
    if skip(locals()):
        return True
    lo, hi = shard(10)
    if not (lo <= spelling < hi):
        return True
    mask = [0, 0b00010010, 0b10100101][pick(noise, 3)]
    ok, nt, sample = native(_cli_lines_concrete, "aarch64" if a64 else "x86", pick(spelling, 10), mask)
    return verdict(ok, nontrivial=nt, sample=sample)


def _cli_lines_over_markers_concrete(isa, extra_before, extra_after, noise_mask):
    """--lines names a region that CONTAINS complete markers: the kernel is exactly the named lines
    (marker comment lines included as comments), the markers play no role"""
    import os
    import tempfile
    from harness._pipeline import run_cli
    arch, body, noises, cmt, smark, emark = KERNELS[isa]
    lines = []
    for i, l in enumerate(body):
        if noise_mask >> i & 1:
            lines.append(noises[i % len(noises)])
        lines.append(l)
    pro = ["pushq %rbp" if isa.startswith("x86") else "mov x9, x10", cmt + " prologue"]
    epi = ["ret", cmt + " epilogue"]
    inner = lines[2:-2]          # an inner region is marked, the user selects a larger one
    marked = pro + lines[:2] + [cmt + " OSACA-BEGIN"] + inner + [cmt + " OSACA-END"] + lines[-2:] + epi
    twin = [l.replace("OSACA-BEGIN", "OSACA-BEGIX").replace("OSACA-END", "OSACA-ENX") for l in marked]
    first = len(pro) + 1 - extra_before
    last = len(marked) - len(epi) + extra_after
    arg = "%d-%d" % (first, last)
    with tempfile.TemporaryDirectory() as td:
        outs = []
        for text in (marked, twin):
            path = os.path.join(td, "k.s")
            with open(path, "w") as f:
                f.write("\n".join(text) + "\n")
            outs.append(_strip_cmdline(run_cli(path, ["--arch", arch, "--lines", arg])).replace(td, ""))
    got = outs[0]
    want = outs[1].replace("OSACA-BEGIX", "OSACA-BEGIN").replace("OSACA-ENX", "OSACA-END")
    return got == want and "Loop-Carried Dependencies Analysis Report" in got, True, {"isa": isa, "lines_arg": arg, "marker_lines": [len(pro) + 3, len(pro) + 4 + len(inner)], "noise_mask": noise_mask}


def cli_lines_over_markers(a64: bool, before: int, after: int, noise: int) -> bool:
    """
    pre: 0 <= before <= 2 and 0 <= after <= 2 and 0 <= noise < 3
    post: _
    """
    if skip(locals()):
        return True
    lo, hi = shard(9)
    if not (lo <= before * 3 + after < hi):
        return True
    mask = [0, 0b00010010, 0b10100101][pick(noise, 3)]
    ok, nt, sample = native(_cli_lines_over_markers_concrete, "aarch64" if a64 else "x86", pick(before, 3), pick(after, 3), mask)
    return verdict(ok, nontrivial=nt, sample=sample)


CELLS = {
    "markers_x86": {"fn": markers_x86, "bound": "files = 0-1 prologue + start marker + 0-2 body + end marker + 0-1 epilogue units; units = one of 8 decoy kinds (incl. mov $w to the marker register without bytes / other register / wrong bytes / byte prefix); marker style {one .byte line, one byte per line, comment, extra trailing byte}; marker immediates v1, v2 and decoy immediate w: ALL integers",
                    "budget": {"quick": 170, "thorough": 900}, "shards": 12},
    "markers_a64": {"fn": markers_a64, "bound": "same on AArch64 (mov x1,#imm + .byte 213,3,32,31)", "budget": {"quick": 170, "thorough": 900}, "shards": 12},
    "lines_arg": {"fn": lines_arg, "bound": "--lines strings a-b, a:b, c,a-b, a-b,c, a, a,b,c for all a,b,c <= 12", "budget": {"quick": 170, "thorough": 600}, "shards": 13},
    "lines_select": {"fn": lines_select, "bound": "4 parsed lines with symbolic increasing line numbers <= 100000, symbolic range of width <= 6", "budget": {"quick": 120, "thorough": 300}},
    "cli_lines": {"fn": cli_lines, "bound": "the real CLI (create_parser, check_arguments, run, inspect) on an 8-line zen1 / tx2 kernel between comment markers, against the same file with --lines in 10 spellings of the same line set (a-b, a:b, enumeration ascending and descending, ranges in the wrong order, overlapping, sharing an end point, a number repeated, numbers of missing lines) x 3 noise layouts: the printed report (minus the command-line echo) is identical",
                  "budget": {"quick": 170, "thorough": 600}, "shards": 10},
    "transparency_long_quick": {"fn": transparency_long_quick, "tiers": ("quick",), "bound": "the same kernels with 41-43 noise lines of one kind inserted before line 1, 4 or 7, so that the selected kernel has 49-51 lines and crosses KernelDG.INSTRUCTION_THRESHOLD = 50 (the multi-process LCD search with its own root handling); bare and --lines variants",
                                "budget": {"quick": 170}, "shards": 12},
    "transparency_long": {"fn": transparency_long, "tiers": ("thorough",), "bound": "40-44 noise lines (kernel of 48-52 lines) before every line 0-7, bare / byte markers / --lines",
                          "budget": {"thorough": 900}, "shards": 16},
    "transparency_far_quick": {"fn": transparency_far_quick, "tiers": ("quick",), "bound": "as transparency_far for start lines 993..1000 and 0, 1 or 3 lines cut off", "budget": {"quick": 170}, "shards": 8},
    "transparency_far": {"fn": transparency_far, "tiers": ("thorough",), "bound": "the same kernels starting at every line 985..1004 of a long file (so that the kernel's line numbers straddle 1000, the LCD search's iteration offset) through byte markers / --lines / a whole file with leading blank lines, with the last 0-3 lines cut off so that the selection ends on an instruction of a dependency cycle",
                         "budget": {"thorough": 600}, "shards": 20},
    "transparency_far2": {"fn": transparency_far2, "tiers": ("thorough",), "bound": "same at start lines 1500, 1999, 2000, 2001, 3007, 12000", "budget": {"thorough": 900}, "shards": 1},
    "cli_lines_over_markers": {"fn": cli_lines_over_markers, "bound": "the real CLI with --lines naming a region that contains a complete pair of comment markers around an inner part (0-2 extra lines on either side, 3 noise layouts, both ISAs): the report equals the one for a twin file whose marker comments are defused - with --lines the markers play no role",
                               "budget": {"quick": 170, "thorough": 600}, "shards": 9},
    "transparency_quick": {"fn": transparency_quick, "tiers": ("quick",), "bound": "8-line kernel on zen1 / tx2; noise line (comment, label, directive, blank, empty comment, comment with a fragment of the marker word) inserted at <= 1 symbolic position x 4 input variants (bare, byte markers, comment markers, --lines)", "budget": {"quick": 170}, "shards": 9},
    "transparency": {"fn": transparency, "tiers": ("thorough",), "bound": "noise at every subset of the 8 positions x 6 noise kinds x 4 variants, plus --fixed", "budget": {"thorough": 2400}, "shards": 64},
}

META = {
    "functions": ["marker_utils.reduce_to_section", "find_marked_kernel_x86ATT", "find_marked_kernel_AArch64", "find_marked_section", "match_bytes", "osaca.get_line_range",
                  "selection by line number as in osaca.inspect", "end to end: parse_file, ArchSemantics.add_semantics, assign_optimal_throughput x2, KernelDG, Frontend.full_analysis_dict on zen1/tx2"],
    "bounds": "see cells; marker immediates are unbounded symbolic ints, layout symbolic",
    "outside": "files with exactly one marker or several start/end markers (not specified by the statement); in the transparency cells the analysis steps of osaca.inspect are replicated in harness/_pipeline.py - osaca.inspect itself runs in cli_lines",
    "assumptions": ["transparency cells are native runs on shipped models per solver-chosen layout (metamorphic, no oracle)",
                    "a mov $111/$222 into the marker register counts as a marker only when directly followed by .byte lines whose bytes start with the nop sequence"],
}
