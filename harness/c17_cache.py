"""C17 - model caches are transparent, also after interrupted or racing writes.

The real MachineModel.__init__ (non-lazy and lazy branch), _get_cached and _write_in_cache run
against an in-memory file system installed by rebinding Path / hashlib / pickle / os / open and the
YAML factory in osaca.semantics.hw_model.  File contents are abstract ids; sha256 is an injective
map on them (content ids are symbolic ints canonicalised to an equality pattern, so 'same content'
/ 'different content' is decided by the solver); every cache slot has a symbolic state (absent,
empty, header only, cut mid-stream, last byte missing, complete for some content with current or
stale format version).  pickle.load raises for the truncated classes (contract validated against
real pickles in the 'pickle_contract' cell).
"""
import io

import osaca.semantics.hw_model as hw
from osaca.semantics import MachineModel

from vp.api import verdict, skip, shard, kf_state, StubGap, stub_gap
from vp.symx import pick, canon, NoTracing

MODEL = "/data/arch.yml"
CACHE_DIR = "/home/u/.osaca/cache"
ABSENT, EMPTY, HEADER, MID, LASTBYTE, COMPLETE, STALE, NEWER, HEADERONLY = range(9)     # STALE / NEWER: written for an older / a newer internal format; HEADERONLY: complete pickle of a header-only (lazy) load
TRUNCATED = (EMPTY, HEADER, MID, LASTBYTE)


class FS:
    def __init__(self, content, data_writable=True, home_creatable=True, stem="arch"):
        self.stem = stem                              # file name without '.yml' (may itself contain a dot)
        self.model = "/data/%s.yml" % stem
        self.files = {self.model: ("yaml", content)}      # path -> (kind, payload)
        self.data_writable = data_writable
        self.home_creatable = home_creatable
        self.dirs = {"/data"}
        self.crash_write = None                       # state in which the next cache write is interrupted
        self.writes = []

    def slot(self, where, content):
        name = ("/data/.%s_h%d.pickle" % (self.stem, content)) if where == "companion" else ("%s/%s_h%d.pickle" % (CACHE_DIR, self.stem, content))
        return name

    def put(self, where, content, state, made_for=None):
        if state == ABSENT:
            return
        if where == "home":
            self.dirs.add(CACHE_DIR)
        made_for = content if made_for is None else made_for
        self.files[self.slot(where, content)] = ("pickle", (state, made_for))


def fresh(content, full=True):
    forms = ["<form nop>"] if full else []
    return {"content": content, "isa": "x86", "instruction_forms": list(forms), "instruction_forms_dict": ({"NOP": list(forms)} if full else {}), "internal_version": MachineModel.INTERNAL_VERSION}


def is_full(data):
    """the whole model was loaded (not only the header, as a lazy load does)"""
    return len(data.get("instruction_forms") or []) == 1 and "NOP" in (data.get("instruction_forms_dict") or {})


class CrashDuringWrite(Exception):
    pass


def install(fs):
    class FPath:
        def __init__(self, p):
            self.p = str(p)

        def __str__(self):
            return self.p

        def __fspath__(self):
            return self.p

        def __truediv__(self, other):
            return FPath(self.p.rstrip("/") + "/" + str(other))

        @property
        def stem(self):
            b = self.p.rsplit("/", 1)[-1]
            return b.rsplit(".", 1)[0] if "." in b[1:] else b

        @property
        def parent(self):
            return FPath(self.p.rsplit("/", 1)[0])

        def with_name(self, name):
            return FPath(self.p.rsplit("/", 1)[0] + "/" + name)

        def with_suffix(self, suf):
            d, b = self.p.rsplit("/", 1)
            head = b.rsplit(".", 1)[0] if "." in b[1:] else b
            return FPath(d + "/" + head + suf)

        def read_bytes(self):
            kind, payload = fs.files[self.p]
            return ("bytes", payload)

        def exists(self):
            return self.p in fs.files

        def open(self, mode="r"):
            return fopen(self.p, mode)

        def unlink(self, missing_ok=False):
            if self.p not in fs.files and missing_ok:
                return
            FOS.remove(self.p)

        def replace(self, target):
            FOS.replace(self.p, target)
            return FPath(target)

        rename = replace

        def __getattr__(self, name):
            raise StubGap("Path.%s" % name)

    class FFile:
        def __init__(self, path, mode):
            self.path, self.mode = path, mode
            if "r" in mode:
                kind, payload = fs.files[path]
                self.kind, self.payload = kind, payload
                if kind == "yaml" and "b" not in mode:
                    self.lines = ["id:%d\n" % payload, "isa: x86\n", "instruction_forms:\n", "- name: nop\n"]
            else:
                if not ((path.startswith("/data/") and fs.data_writable) or path.startswith(CACHE_DIR)):
                    raise PermissionError(path)
                fs.files[path] = ("pickle", (EMPTY, None))          # open('wb') truncates in place
                fs.writes.append(path)

        def __enter__(self):
            return self

        def __exit__(self, *a):
            return False

        def readline(self, *a):
            if a:
                raise StubGap("file.readline(size)")
            return self.lines.pop(0) if self.lines else ""

        def read(self, *a):
            if a or not hasattr(self, "lines"):
                raise StubGap("file.read(%r) on %s" % (a, self.mode))
            out = "".join(self.lines)
            self.lines = []
            return out

        def __getattr__(self, name):
            raise StubGap("file.%s" % name)

    def fopen(path, mode="r"):
        return FFile(str(path), mode)

    class FHash:
        @staticmethod
        def sha256(*a):
            if len(a) != 1 or not (isinstance(a[0], tuple) and a[0][0] == "bytes"):
                raise StubGap("hashlib.sha256 used incrementally / on other data")
            b = a[0]

            class D:
                def hexdigest(self_inner):
                    return "h%d" % b[1]

                def __getattr__(self_inner, name):
                    raise StubGap("sha256().%s" % name)
            return D()

        def __getattr__(self, name):
            raise StubGap("hashlib.%s" % name)

    class FPickle:
        UnpicklingError = hw.pickle.UnpicklingError

        @staticmethod
        def load(f):
            state, made_for = f.payload
            if state in TRUNCATED:
                raise EOFError("Ran out of input") if state in (EMPTY, LASTBYTE) else hw.pickle.UnpicklingError("pickle data was truncated")
            d = fresh(made_for, full=state != HEADERONLY)
            if state == STALE:
                d["internal_version"] = MachineModel.INTERNAL_VERSION - 1
            if state == NEWER:
                d["internal_version"] = MachineModel.INTERNAL_VERSION + 1
                d["content"] = made_for + 1000          # another format: its data must not be used as is
            return d

        @staticmethod
        def dump(data, f):
            if fs.crash_write is not None:
                st = fs.crash_write
                fs.crash_write = None
                fs.files[f.path] = ("pickle", (st, data.get("content")))
                raise CrashDuringWrite()
            ver_ok = data.get("internal_version") == MachineModel.INTERNAL_VERSION
            st = (COMPLETE if ver_ok else STALE) if len(data.get("instruction_forms") or []) > 0 else HEADERONLY
            fs.files[f.path] = ("pickle", (st, data.get("content")))

    class _FOS:
        W_OK = 2

        @staticmethod
        def access(path, mode):
            path = str(path)
            if path == "/data":
                return fs.data_writable
            return path in fs.dirs

        @staticmethod
        def makedirs(path, exist_ok=False):
            if not fs.home_creatable and str(path) not in fs.dirs:
                raise OSError("read-only home")
            fs.dirs.add(str(path))

        @staticmethod
        def getpid():
            return 4000

        @staticmethod
        def replace(src, dst):
            src, dst = str(src), str(dst)
            if src not in fs.files:
                raise FileNotFoundError(src)
            if not ((dst.startswith("/data/") and fs.data_writable) or dst.startswith(CACHE_DIR)):
                raise PermissionError(dst)
            fs.files[dst] = fs.files.pop(src)

        rename = replace

        @staticmethod
        def remove(path):
            if str(path) not in fs.files:
                raise FileNotFoundError(str(path))
            del fs.files[str(path)]

        unlink = remove

        def __getattr__(self, name):
            raise StubGap("os.%s" % name)

    class FYaml:
        def load(self, f):
            text = f if isinstance(f, str) else f.read()
            cid = int(text.split("\n", 1)[0].split(":")[1])
            forms = [{"name": "nop", "operands": []}] if "- name: nop" in text else []      # a lazy load stops before the forms
            d = {"content": cid, "isa": "x86", "instruction_forms": forms}
            return d

    saved = (hw.Path, hw.hashlib, hw.pickle, hw.os, getattr(hw, "open", None), MachineModel._create_yaml_object, hw.utils.CACHE_DIR, dict(MachineModel._runtime_cache))
    FOS = _FOS()
    hw.Path, hw.hashlib, hw.pickle, hw.os, hw.open = FPath, FHash(), FPickle, FOS, fopen
    MachineModel._create_yaml_object = lambda self: FYaml()
    hw.utils.CACHE_DIR = CACHE_DIR
    return saved


def uninstall(saved):
    hw.Path, hw.hashlib, hw.pickle, hw.os = saved[0], saved[1], saved[2], saved[3]
    if saved[4] is None:
        del hw.open
    else:
        hw.open = saved[4]
    MachineModel._create_yaml_object = saved[5]
    hw.utils.CACHE_DIR = saved[6]
    MachineModel._runtime_cache.clear()
    MachineModel._runtime_cache.update(saved[7])


def invariant(fs):
    """every COMPLETE slot named with hash(c) holds the data parsed from content c"""
    for path, (kind, payload) in fs.files.items():
        if kind == "pickle" and payload[0] == HEADERONLY:
            return False         # a cache file never holds a header-only model
        if kind == "pickle" and "_h" not in path.rsplit("/", 1)[1]:
            return False         # a cache file whose name does not carry the content hash
        if kind == "pickle" and payload[0] == COMPLETE:
            named = int(path.rsplit("_h", 1)[1].split(".")[0])
            if payload[1] != named:
                return False
    return True


def construct(fs, lazy=False):
    m = MachineModel(path_to_yaml=fs.model, lazy=lazy)
    return m._data


def _clean(d):
    return {k: v for k, v in d.items() if k in ("content", "isa", "internal_version")}


def one_run(c_now: int, c_comp: int, c_home: int, st_comp: int, st_home: int, writable: bool, home_ok: bool, warm_runtime: bool, lazy: bool, dotted: bool) -> bool:
    """
    pre: 0 <= st_comp < 8 and 0 <= st_home < 8
    post: _
    """
    # inductive step: ONE construction from an arbitrary file-system state satisfying the invariant
    lo, hi = shard(64)
    if not (lo <= st_comp * 8 + st_home < hi):
        return True
    pat = canon([c_now, c_comp, c_home])
    sc, sh = pick(st_comp, 8), pick(st_home, 8)
    feat = {"truncated_slot_for_current_content": (sc in TRUNCATED and pat[1] == pat[0]) or (sh in TRUNCATED and pat[2] == pat[0]), "lazy": bool(lazy)}
    st = kf_state(feat)
    if st == "skip":
        return True
    fs = FS(pat[0], data_writable=True if writable else False, home_creatable=True if home_ok else False, stem="arch.v2" if dotted else "arch")
    fs.put("companion", pat[1], sc)
    fs.put("home", pat[2], sh)
    saved = install(fs)
    try:
        MachineModel._runtime_cache.clear()
        if warm_runtime:
            MachineModel._runtime_cache[fs.model] = fresh(pat[0] + 7)     # left over from before an edit of the file
        crashed = None
        try:
            data = construct(fs, lazy=True if lazy else False)
        except StubGap as e:
            stub_gap(e)
            return True
        except Exception as e:   # noqa
            crashed = e
            data = None
        if crashed is not None:
            ok = st == "relaxed"         # only the known finding may make a run fail
        else:
            ok = data.get("content") == pat[0] and invariant(fs)
            if not lazy:
                ok = ok and is_full(data)
                ok = ok and MachineModel._runtime_cache.get(fs.model, {}).get("content") == pat[0]
                ok = ok and data.get("internal_version") == MachineModel.INTERNAL_VERSION
    finally:
        uninstall(saved)
    return verdict(ok, nontrivial=sc != ABSENT or sh != ABSENT,
                   sample=lambda: {"model_file": fs.model, "content_classes": pat, "companion": sc, "home": sh, "data_dir_writable": writable, "home_creatable": home_ok, "lazy": lazy})


EVENTS = ["run", "run_crash_empty", "run_crash_mid", "run_crash_lastbyte", "edit", "racing_writer_mid", "run_lazy", "data_dir_readonly"]


def history(e0: int, e1: int, e2: int, writable: bool, dotted: bool) -> bool:
    """
    pre: 0 <= e0 < 8 and 0 <= e1 < 8 and 0 <= e2 < 8
    post: _
    """
    # histories of three events from a cold start, then one more ordinary run
    lo, hi = shard(64)
    if not (lo <= e0 * 8 + e1 < hi):
        return True
    ev = [EVENTS[pick(e0, 8)], EVENTS[pick(e1, 8)], EVENTS[pick(e2, 8)]]
    feat = {"truncated_slot_for_current_content": any(x.startswith("run_crash") or x.startswith("racing") for x in ev), "lazy": False}
    st = kf_state(feat)
    if st == "skip":
        return True
    fs = FS(0, data_writable=True if writable else False, stem="arch.v2" if dotted else "arch")
    saved = install(fs)
    ok = True
    try:
        MachineModel._runtime_cache.clear()
        for x in ev + ["run"]:
            if x == "edit":
                fs.files[fs.model] = ("yaml", fs.files[fs.model][1] + 1)
                continue
            if x == "data_dir_readonly":
                fs.data_writable = False
                continue
            if x == "racing_writer_mid":
                # another process is in the middle of an in-place write of the slot for the current content
                cur = fs.files[fs.model][1]
                where = "companion" if fs.data_writable else "home"
                fs.put(where, cur, MID)
                continue
            if x.startswith("run_crash"):
                fs.crash_write = {"run_crash_empty": EMPTY, "run_crash_mid": MID, "run_crash_lastbyte": LASTBYTE}[x]
                MachineModel._runtime_cache.clear()      # the crashed process is gone
                try:
                    construct(fs)
                except CrashDuringWrite:
                    pass
                except StubGap as e:
                    stub_gap(e)
                    return True
                fs.crash_write = None
                continue
            MachineModel._runtime_cache.clear() if x == "run" else None
            try:
                data = construct(fs, lazy=(x == "run_lazy"))
            except StubGap as e:
                stub_gap(e)
                return True
            except Exception:   # noqa
                ok = st == "relaxed"
                break
            if data.get("content") != fs.files[fs.model][1] or not invariant(fs) or (x != "run_lazy" and not is_full(data)):
                ok = False
                break
    finally:
        uninstall(saved)
    return verdict(ok, nontrivial=True, sample={"model_file": fs.model, "events": ev + ["run"], "data_dir_writable": writable})


def _pickle_contract_concrete(cut):
    """real pickle: a stream cut at any offset class raises one of the exceptions the stub raises"""
    import pickle
    blob = pickle.dumps(fresh(3))
    n = len(blob)
    pos = {0: 0, 1: 2, 2: n // 2, 3: n - 1}[cut]
    try:
        pickle.load(io.BytesIO(blob[:pos]))
    except (EOFError, pickle.UnpicklingError):
        return True, True, {"cut_at": pos, "of": n}
    except Exception as e:   # any other exception type would also have to be tolerated by a reader
        return False, True, {"cut_at": pos, "raised": type(e).__name__}
    return False, True, {"cut_at": pos, "raised": None}


def pickle_contract(cut: int) -> bool:
    """
    pre: 0 <= cut < 4
    post: _
    """
    from vp.symx import native
    ok, nt, sample = native(_pickle_contract_concrete, pick(cut, 4))
    return verdict(ok, nontrivial=nt, sample=sample)


# ---- concrete witness on a real file system (validates the stub contract end to end) -------------

REAL_EVENTS = ["run", "edit_tail", "edit_head", "cut_cache_0", "cut_cache_mid", "cut_cache_last", "readonly_datadir"]


def _real_fs_concrete(ev):
    import glob
    import os
    import shutil
    import tempfile
    import osaca.utils as utils
    src = utils.find_datafile("zen1.yml")
    td = tempfile.mkdtemp(prefix="vp_c17_")
    saved_cd, saved_rc = utils.CACHE_DIR, dict(MachineModel._runtime_cache)
    try:
        os.makedirs(os.path.join(td, "data"))
        os.makedirs(os.path.join(td, "home"))
        path = os.path.join(td, "data", "zen1.yml")
        shutil.copy(src, path)
        utils.CACHE_DIR = os.path.join(td, "home", "cache")

        def reference():
            gc, wc = MachineModel._get_cached, MachineModel._write_in_cache
            MachineModel._get_cached = lambda s_, p_: False
            MachineModel._write_in_cache = lambda s_, p_: None
            try:
                MachineModel._runtime_cache.clear()
                return repr(MachineModel(path_to_yaml=path)._data["instruction_forms_dict"]) + repr(MachineModel(path_to_yaml=path)._data.get("load_latency"))
            finally:
                MachineModel._get_cached, MachineModel._write_in_cache = gc, wc
                MachineModel._runtime_cache.clear()

        def run():
            MachineModel._runtime_cache.clear()          # a new process
            d = MachineModel(path_to_yaml=path)._data
            return repr(d["instruction_forms_dict"]) + repr(d.get("load_latency"))

        ok = True
        n_edit = 0
        for x in list(ev) + ["run"]:
            if x == "run":
                if run() != reference():
                    ok = False
                    break
            elif x == "edit_tail":
                n_edit += 1
                txt = open(path).read()
                k = txt.rindex("latency:")
                e = txt.index("\n", k)
                open(path, "w").write(txt[:k] + "latency: %d.0" % (40 + n_edit) + txt[e:])
            elif x == "edit_head":
                n_edit += 1
                txt = open(path).read()
                k = txt.index("load_latency:")
                e = txt.index("\n", k)
                open(path, "w").write(txt[:k] + "load_latency: {gpr: %d.0, xmm: 4.0, ymm: 4.0}" % (10 + n_edit) + txt[e:])
            elif x.startswith("cut_cache"):
                for f in glob.glob(os.path.join(td, "data", ".zen1_*.pickle")) + glob.glob(os.path.join(td, "home", "cache", "zen1_*.pickle")):
                    n = os.path.getsize(f)
                    cut = {"cut_cache_0": 0, "cut_cache_mid": n // 2, "cut_cache_last": max(n - 1, 0)}[x]
                    with open(f, "rb") as fh:
                        blob = fh.read()
                    with open(f, "wb") as fh:
                        fh.write(blob[:cut])
            elif x == "readonly_datadir":
                os.chmod(os.path.join(td, "data"), 0o555)
        return ok, True, {"events": list(ev) + ["run"]}
    finally:
        utils.CACHE_DIR = saved_cd
        MachineModel._runtime_cache.clear()
        MachineModel._runtime_cache.update(saved_rc)
        try:
            os.chmod(os.path.join(td, "data"), 0o755)
        except OSError:
            pass
        shutil.rmtree(td, ignore_errors=True)


def real_fs2(e0: int, e1: int) -> bool:
    """
    pre: 0 <= e0 < 7 and 0 <= e1 < 7
    post: _
    """
    from vp.symx import native
    lo, hi = shard(49)
    if not (lo <= e0 * 7 + e1 < hi):
        return True
    ok, nt, sample = native(_real_fs_concrete, ["run", REAL_EVENTS[pick(e0, 7)], REAL_EVENTS[pick(e1, 7)]])
    return verdict(ok, nontrivial=nt, sample=sample)


def real_fs(e0: int, e1: int, e2: int) -> bool:
    """
    pre: 0 <= e0 < 7 and 0 <= e1 < 7 and 0 <= e2 < 7
    post: _
    """
    from vp.symx import native
    lo, hi = shard(49)
    if not (lo <= e0 * 7 + e1 < hi):
        return True
    ok, nt, sample = native(_real_fs_concrete, [REAL_EVENTS[pick(e0, 7)], REAL_EVENTS[pick(e1, 7)], REAL_EVENTS[pick(e2, 7)]])
    return verdict(ok, nontrivial=nt, sample=sample)


# ---- two processes populating the same cache at the same time (inode file system + scheduler) ----------

RACE_CONFIGS = [(True, st, 0, False) for st in range(4)] + [(False, 0, st, d) for st in range(4) for d in (False, True) if not (st != 0 and not d)]
MAXSTEP = 40


def _race_concrete(switches, cfg):
    from harness import _fsrace as R
    writable, comp, home, home_dir = RACE_CONFIGS[cfg]
    sw = sorted(set(x for x in switches if x > 0))
    ok, detail, steps = R.race(sw, 0, comp, home, writable, home_dir)
    if steps >= MAXSTEP:
        raise StubGap("a run takes more file-system steps (%d) than the schedule positions cover" % steps)
    names = ["absent", "truncated", "complete", "stale"]
    return ok, len(sw) > 0, {"switch_after_steps": sw, "data_dir_writable": writable, "companion_slot": names[comp], "home_slot": names[home], "home_cache_dir_exists": home_dir, **detail}


def _race(s1, s2, s3, s4, cfg):
    if not (s1 <= s2 <= s3 <= s4) or (s1 > 0 and s1 == s2) or (s2 > 0 and s2 == s3) or (s3 > 0 and s3 == s4):
        return True            # canonical: ascending, unused switches are 0 and come first
    from vp.symx import native
    sw = [pick(s1, MAXSTEP), pick(s2, MAXSTEP), pick(s3, MAXSTEP), pick(s4, MAXSTEP)]
    try:
        ok, nt, sample = native(_race_concrete, sw, pick(cfg, len(RACE_CONFIGS)))
    except StubGap as e:
        stub_gap(e)
        return True
    return verdict(ok, nontrivial=nt, sample=sample)


def race2(s3: int, s4: int, cfg: int) -> bool:
    """
    pre: 0 <= s3 < 40 and 0 <= s4 < 40 and 0 <= cfg < 9
    post: _
    """
    lo, hi = shard(MAXSTEP)
    if not (lo <= s4 < hi):
        return True
    return _race(0, 0, s3, s4, cfg)


def race3(s2: int, s3: int, s4: int, cfg: int) -> bool:
    """
    pre: 0 <= s2 < 40 and 0 <= s3 < 40 and 0 <= s4 < 40 and 0 <= cfg < 9
    post: _
    """
    if not (shard(64)[0] <= (s4 % 8) * 8 + s3 % 8 < shard(64)[1]):
        return True
    return _race(0, s2, s3, s4, cfg)


def race4(s1: int, s2: int, s3: int, s4: int, ro: bool) -> bool:
    """
    pre: 0 <= s1 < 40 and 0 <= s2 < 40 and 0 <= s3 < 40 and 0 <= s4 < 40
    post: _
    """
    if not (shard(64)[0] <= (s4 % 8) * 8 + s3 % 8 < shard(64)[1]):
        return True
    return _race(s1, s2, s3, s4, 4 if ro else 0)


CELLS = {
    "one_run": {"fn": one_run, "bound": "one construction from every file-system state: content ids by equality pattern (current / companion slot's / home slot's), 8 slot states each (absent, 4 truncation classes, complete, older format, newer format), data dir writable or not, home creatable or not, stale in-process cache entry, lazy or full load",
                "budget": {"quick": 170, "thorough": 600}, "shards": 16},
    "history": {"fn": history, "bound": "all 3-event histories over {run, run crashing in the cache write (0 bytes / mid-stream / last byte missing), file edited, racing writer mid-write, lazy run, data dir becomes read-only} followed by a run",
                "budget": {"quick": 170, "thorough": 600}, "shards": 16},
    "real_fs2": {"fn": real_fs2, "tiers": ("quick",), "bound": "as real_fs with histories run + 2 events + run", "budget": {"quick": 170}, "shards": 16},
    "real_fs": {"fn": real_fs, "tiers": ("thorough",), "bound": "concrete witness on a real temporary file system with real pickles (zen1.yml copy): all 3-event histories over {run, edit near the end of the file, edit in the header, cache file cut to 0 bytes / half / last byte missing, data directory made read-only} followed by a run, each run compared with a cache-less parse of the current content",
                "budget": {"thorough": 900}, "shards": 16},
    "race2": {"fn": race2, "bound": "two processes constructing the same model concurrently on a shared inode file system (handles follow renames, open('wb') truncates in place, readers of an inode with an unfinished writer see a truncated stream, per-process runtime cache and pid): every interleaving with <= 2 context switches at any of 39 file-system steps (both runs together take <= 32 on the current tree) x 9 start states (data dir writable with companion slot absent/truncated/complete/stale; read-only with home slot likewise, cache dir present or not); neither process may fail, both get the current data, a later run succeeds",
              "budget": {"quick": 170, "thorough": 600}, "shards": 16},
    "race3": {"fn": race3, "tiers": ("thorough",), "bound": "as race2 with <= 3 context switches", "budget": {"thorough": 1200}, "shards": 64},
    "race4": {"fn": race4, "tiers": ("thorough",), "bound": "<= 4 context switches from the two cold-start states (no slot; data dir writable / read-only)", "budget": {"thorough": 2400}, "shards": 64},
    "pickle_contract": {"fn": pickle_contract, "bound": "real pickle stream cut at 0 bytes / header / mid-stream / last byte", "budget": {"quick": 60, "thorough": 60}},
}

META = {
    "functions": ["MachineModel.__init__ (cache lookup, YAML load, lazy branch, runtime cache)", "MachineModel._get_cached", "MachineModel._write_in_cache"],
    "bounds": "one model file, one companion and one home slot; every combination of slot states; histories of 3 events + final run",
    "outside": "real file systems, real pickle byte streams (behind the stub contract, validated by pickle_contract), os.access semantics, more than 2 concurrent processes, more than 4 context switches, byte-level interleaving of two in-place writers (both write the same bytes; modelled as: truncated until the last writer closes), temporary files created through the tempfile module (not rebound)",
    "stubs": ["harness/_fsrace.py: inode file system + deterministic two-thread scheduler (race cells)", "pathlib.Path, hashlib.sha256 (injective on content ids), pickle.load/dump, os.access/makedirs, open, MachineModel._create_yaml_object rebound in osaca.semantics.hw_model"],
    "assumptions": ["invariant: a complete slot named with hash(c) was produced from content c (hash collisions excluded)"],
}
