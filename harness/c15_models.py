"""C15 - every shipped model entry is well-formed and can be costed.

wf_lemma    : (traced, symbolic cycles / port-set shapes) a micro-op list satisfying the
              well-formedness predicate WF is costed by MachineModel.average_port_pressure without
              exception; each WF clause is necessary.
model_<arch>: every non-empty shipped model / ISA file is loaded by the REAL loader from the
              working tree's YAML; its tables are emitted as a ground z3 table and the solver is
              asked for an entry violating WF (a search over a finite table: the solver adds no
              generality beyond a scan, see DESIGN); every WF entry is also costed by the real code.
db_check    : --db-check's counts against the numbers present in the file (small models).
"""
import glob
import io
import numbers
import os

from osaca.semantics import MachineModel

from vp.api import verdict, skip, kf_state
from vp.symx import pick, native
from vp.synth import mk_model
from harness._pipeline import no_cache

DATA = os.path.join(os.path.dirname(os.path.abspath(MachineModel.__module__ and __import__("osaca").__file__)), "data")
ARCHS = sorted(os.path.basename(f)[:-4] for f in glob.glob(os.path.join(DATA, "*.yml")) if os.path.getsize(f) > 0)
ISAS = sorted("isa/" + os.path.basename(f)[:-4] for f in glob.glob(os.path.join(DATA, "isa", "*.yml")) if os.path.getsize(f) > 0)


# ---- WF predicate (from the statement) -----------------------------------------------------------

def wf_problems(u, ports):
    pr = []
    if not isinstance(u, (list, tuple)):
        return ["micro-op list is not a list: %r" % (u,)]
    for e in u:
        if not (isinstance(e, (list, tuple)) and len(e) == 2):
            pr.append("not a [cycles, ports] pair: %r" % (e,))
            continue
        c, ps = e
        if isinstance(c, bool) or not isinstance(c, numbers.Number) or c < 0:
            pr.append("cycles not a number >= 0: %r" % (c,))
        if not isinstance(ps, (str, list, tuple)) or len(ps) == 0:
            pr.append("empty or malformed port collection: %r" % (ps,))
            continue
        for q in ps:
            if q not in ports:
                pr.append("port %r not in the model's port list" % (q,))
    return pr


def entry_problems(form, ports):
    pr = []
    pp = form.port_pressure
    alts = list(pp.values()) if isinstance(pp, dict) else [pp]
    for a in alts:
        if a is not None:
            pr += wf_problems(a, ports)
    for k in ("throughput", "latency"):
        v = getattr(form, k)
        if v is not None and (isinstance(v, bool) or not isinstance(v, numbers.Number) or v < 0):
            pr.append("%s not a number >= 0: %r" % (k, v))
    return pr


# ---- lemma ------------------------------------------------------------------------------------------

PORTS = ["0", "1DV", "2", "02"]       # "02" is also what the string form of the port set {0, 2} spells: it must stay untouched
SUBS = [(0,), (1,), (2,), (0, 1), (0, 2), (1, 2), (0, 1, 2)]


def wf_lemma(c0: int, c1: int, s0: int, s1: int, n: int, as_list: bool) -> bool:
    """
    pre: 0 <= c0 <= 1000 and 0 <= c1 <= 1000 and 0 <= s0 < 7 and 0 <= s1 < 7 and 0 <= n <= 2
    post: _
    """
    if skip(locals()):
        return True
    m = mk_model("x86", ports=list(PORTS))
    nn = pick(n, 3)
    us = []
    for c, s in ((c0, s0), (c1, s1))[:nn]:
        names = [PORTS[i] for i in SUBS[pick(s, 7)]]
        if all(len(x) == 1 for x in names) and not as_list:
            us.append([c, "".join(names)])
        else:
            us.append([c, names])
    p = m.average_port_pressure(us)           # must not raise for any WF list
    ok = len(p) == 4 and all(x >= 0 for x in p) and sum(p) == sum(u[0] for u in us) and p[3] == 0
    return verdict(ok, nontrivial=nn > 0, sample=lambda: {"uops": us})


def _necessity_concrete(which):
    m = mk_model("x86", ports=list(PORTS))
    bad = [[[-1, "0"]], [[1, "7"]], [[1, "0", "2"]], [1, ["0"]], [[1, []]]][which]
    assert wf_problems(bad, PORTS)
    try:
        p = m.average_port_pressure(bad)
    except (KeyError, ValueError, TypeError):
        return True, True, {"malformed": bad, "effect": "exception"}
    # no exception: the result must be visibly wrong (negative pressure or lost cycles)
    return any(x < 0 for x in p) or sum(p) != 1, True, {"malformed": bad, "effect": list(p)}


def wf_necessity(which: int) -> bool:
    """
    pre: 0 <= which < 5
    post: _
    """
    ok, nt, sample = native(_necessity_concrete, pick(which, 5))
    return verdict(ok, nontrivial=nt, sample=sample)


# ---- shipped tables ---------------------------------------------------------------------------------

_LOADED = {}


def load(arch):
    if arch not in _LOADED:
        with no_cache():
            _LOADED[arch] = MachineModel(path_to_yaml=os.path.join(DATA, arch + ".yml"))
    return _LOADED[arch]


def entries(arch):
    """[(name, occurrence, kind, object)]"""
    m = load(arch)
    d = m._data
    out = []
    for name, forms in d["instruction_forms_dict"].items():
        for k, fo in enumerate(forms):
            out.append((name, k, "form", fo))
    for key in ("load_throughput", "store_throughput"):
        for k, row in enumerate(d.get(key) or []):
            out.append((key, k, "row", row[1]))
    for key in ("load_throughput_default", "store_throughput_default"):
        if key in d:
            out.append((key, 0, "row", d[key]))
    return out, d.get("ports", [])


def problems_of(kind, obj, ports):
    return entry_problems(obj, ports) if kind == "form" else wf_problems(obj, ports)


def _sem_for(m):
    from osaca.semantics import ArchSemantics
    s = ArchSemantics.__new__(ArchSemantics)
    s._machine_model = m
    s._isa = (m._data.get("isa") or "x86").lower()
    return s


def _balance_ok(sem, m, form, ports):
    """The CLI's costing path for a matched form: uniform pressure as _handle_instruction_found
    assigns it, then the two balancing passes - must not raise and must keep the totals sane."""
    import copy
    from vp.synth import iform
    if not ports:
        return True
    pp = form.port_pressure
    k = iform(1, lat=form.latency or 0.0, tp=form.throughput if form.throughput else 1.0)
    k.port_uops = copy.deepcopy(pp)
    k.port_pressure = m.average_port_pressure(pp)
    other = iform(2, lat=1.0, tp=1.0)
    other.port_uops = [[1, [ports[0]]]]
    other.port_pressure = m.average_port_pressure(other.port_uops)
    kernel = [k, other]
    sem.assign_optimal_throughput(kernel)
    sem.assign_optimal_throughput(kernel)
    tot = sem.get_throughput_sum(kernel)
    return len(tot) == len(ports) and all(x >= -1e-9 for x in tot) and isinstance(k.port_uops, list)


def _found_ok(sem, form, nports):
    """What the analysis does with a matched form (_handle_instruction_found) and what the
    machine-readable report then needs: numeric throughput / latency / latency without load."""
    from osaca.parser.instruction_form import InstructionForm
    f = InstructionForm(mnemonic=form.mnemonic, operands=[], line="x", line_number=1)
    f.flags = []
    flags = []
    tp, pp, lat, lat_wo = sem._handle_instruction_found(form, nports, f, flags)
    float(tp), float(lat), float(lat_wo)
    return len(f.port_pressure) == nports


def _report_ok(m, arch, sem, form, nports):
    """The CLI path for a kernel that consists of one instruction matching this form: text report and
    machine-readable report are produced (no exception), with one kernel line and one totals line."""
    from osaca.frontend import Frontend
    from vp.synth import iform, DG, NativeParser, PX, PA
    f = iform(1, mnemonic=form.mnemonic, line=str(form.mnemonic).lower())
    flags = []
    tp, pp, lat, lat_wo = sem._handle_instruction_found(form, nports, f, flags)
    f.throughput, f.latency, f.latency_wo_load, f.flags = tp, lat, lat_wo, flags
    f._comment_id = None
    isa = (m._data.get("isa") or "x86").lower()
    g = DG([f], NativeParser(PX if isa == "x86" else PA), lcd=True)
    fe = Frontend.__new__(Frontend)
    fe._filename, fe._arch, fe._machine_model = "k.s", arch, m
    text = fe.full_analysis([f], g, ignore_unknown=False)
    d = fe.full_analysis_dict([f], g)
    ok = "Combined Analysis Report" in text and len(d["Kernel"]) == 1 and len(d["Summary"]["PortPressure"]) == nports
    # the default CLI path: two balancing passes on the one-line kernel, then the reports again (forms with
    # no / zero throughput only: they do not count towards the port sums the balancer works with)
    if form.throughput:
        return ok
    sem.assign_optimal_throughput([f])
    sem.assign_optimal_throughput([f])
    text = fe.full_analysis([f], g, ignore_unknown=False)
    d = fe.full_analysis_dict([f], g)
    return ok and "Combined Analysis Report" in text and len(d["Kernel"]) == 1 and len(d["Summary"]["PortPressure"]) == nports


def _instance_of(isa, pat):
    """an instruction's memory operand with the addressing shape a table row declares"""
    from osaca.parser.immediate import ImmediateOperand
    from osaca.parser.memory import MemoryOperand
    from osaca.parser.register import RegisterOperand

    def r(spec, n):
        if spec is None:
            return None
        if isa == "x86":
            return RegisterOperand(name=["rax", "rcx"][n])
        return RegisterOperand(prefix=("x" if spec == "*" else str(spec)), name=["1", "2"][n])
    off = None if pat.offset is None else ImmediateOperand(value=8)
    idx = r(pat.index, 1)
    scale = pat.scale if isinstance(pat.scale, int) else (4 if idx is not None else 1)
    mem = MemoryOperand(base=r(pat.base, 0), offset=off, index=idx, scale=scale)
    if isa != "x86":
        mem.pre_indexed = True if pat.pre_indexed is True else False
        mem.post_indexed = {"value": 8} if pat.post_indexed is True else False
    return mem


REG_TYPES = {"x86": ["gpr", "xmm", "ymm", "zmm"], "aarch64": ["w", "x", "b", "h", "s", "d", "q", "v", "z"]}


def _lookup_ok(m, key, pat, ports):
    """What assign_tp_lt does with the load / store tables for a memory-composed instruction: the
    look-up for an operand of the row's own addressing shape and every data-register type yields
    at least one row (the default if none applies) whose first micro-op list can be costed."""
    from osaca.parser.register import RegisterOperand
    isa = (m._data.get("isa") or "x86").lower()
    mem = _instance_of(isa, pat)
    for t in REG_TYPES[isa]:
        res = m.get_load_throughput(mem) if key == "load_throughput" else m.get_store_throughput(mem, RegisterOperand(name=t))
        if not res or wf_problems(res[0][1], ports):
            return False
        m.average_port_pressure(res[0][1])
    return True


def make_model_cell(arch, balance_all=False):
    def run(budget):
        import z3
        from vp import api
        ents, ports = entries(arch)
        m = load(arch)
        sem = _sem_for(m)
        idx = z3.Int("entry")
        facts = []
        cost_failures = []
        n_wf = 0
        for i, (name, k, kind, obj) in enumerate(ents):
            pr = problems_of(kind, obj, ports)
            st = kf_state({"arch": arch, "name": name, "problems": tuple(pr)})
            if st == "skip" or (st == "relaxed" and pr):
                wf = True           # outside the reproduced finding / inside a recorded one
            else:
                wf = not pr
            facts.append(z3.And(idx == i, z3.BoolVal(not wf)))
            if not pr:
                n_wf += 1
                # costing by the real code must succeed for every WF entry
                try:
                    pp = obj.port_pressure if kind == "form" else obj
                    alts = list(pp.keys()) if isinstance(pp, dict) else [None]
                    for a in alts:
                        if pp is None:
                            continue
                        vec = m.average_port_pressure(pp, option=a) if a is not None else m.average_port_pressure(pp)
                        if len(vec) != len(ports):
                            cost_failures.append(i)
                    if kind == "form" and pp is not None and (balance_all or isinstance(pp, dict)) and not _balance_ok(sem, m, obj, ports):
                        cost_failures.append(i)
                    if kind == "form" and ports and not _found_ok(sem, obj, len(ports)):
                        cost_failures.append(i)
                    # report path: every form with a special shape (no / zero throughput, no latency, no micro-ops)
                    # and every 16th of the others (thorough tier: every form)
                    special = kind == "form" and (not obj.throughput or obj.latency is None or not pp)
                    if kind == "form" and ports and (balance_all or special or i % 16 == 0) and not _report_ok(m, arch, sem, obj, len(ports)):
                        cost_failures.append(i)
                except Exception:   # noqa
                    cost_failures.append(i)
        # table look-ups: one addressing instance per declared row x every data-register type
        if ports:
            for i, (name, k, kind, obj) in enumerate(ents):
                if kind == "row" and name in ("load_throughput", "store_throughput") and not problems_of(kind, obj, ports):
                    try:
                        if not _lookup_ok(m, name, m._data[name][k][0], ports):
                            cost_failures.append(i)
                    except Exception:   # noqa
                        cost_failures.append(i)
        for i in cost_failures:
            st = kf_state({"arch": arch, "name": ents[i][0], "problems": ()})
            if st == "full":
                facts.append(z3.And(idx == i, z3.BoolVal(True)))
        s = z3.Solver()
        s.add(idx >= 0, idx < len(ents), z3.Or(*facts) if facts else z3.BoolVal(False))
        r = str(s.check())
        if r == "sat":
            i = s.model()[idx].as_long()
            name, k, kind, obj = ents[i]
            return {"status": "counterexample", "args": [arch, name, k], "kwargs": {}, "paths": len(ents),
                    "message": "%s %s #%d: %s" % (arch, name, k, "; ".join(problems_of(kind, obj, ports))[:300])}
        if r != "unsat":
            return {"status": "inconclusive", "message": "solver answered " + r, "paths": len(ents)}
        api.STATS["reached"] += len(ents)
        api.STATS["nontrivial"] += n_wf
        api.SAMPLES.append({"arch": arch, "entries": len(ents), "well_formed_and_costed": n_wf, "ports": list(ports)[:16]})
        return {"status": "confirmed", "paths": len(ents)}
    return run


def replay_entry(arch, name, k):
    ents, ports = entries(arch)
    for n, kk, kind, obj in ents:
        if n == name and kk == k:
            if problems_of(kind, obj, ports):
                return False
            m = load(arch)
            pp = obj.port_pressure if kind == "form" else obj
            if pp is not None:
                m.average_port_pressure(pp)
                if kind == "form":
                    try:
                        return _balance_ok(_sem_for(m), m, obj, ports) and _found_ok(_sem_for(m), obj, len(ports)) and _report_ok(m, arch, _sem_for(m), obj, len(ports))
                    except Exception:   # noqa
                        return False
                if kind == "row" and name in ("load_throughput", "store_throughput"):
                    try:
                        return _lookup_ok(m, name, m._data[name][k][0], ports)
                    except Exception:   # noqa
                        return False
            return True
    return True


# ---- --db-check counts ------------------------------------------------------------------------------

def _dbcheck_concrete(arch, verbose=False):
    import re
    import ruamel.yaml
    from osaca.db_interface import sanity_check
    with no_cache():
        out = io.StringIO()
        sanity_check(arch, verbose=verbose, output_file=out)
    text = out.getvalue()
    raw = ruamel.yaml.YAML(typ="safe").load(open(os.path.join(DATA, arch + ".yml")))
    forms = []
    for e in raw["instruction_forms"]:
        names = e["name"] if isinstance(e["name"], list) else [e["name"]]
        forms += [e] * len(names)
    want = {"throughput": sum(1 for e in forms if e.get("throughput") is None), "latency": sum(1 for e in forms if e.get("latency") is None),
            "port pressure": sum(1 for e in forms if e.get("port_pressure") is None)}
    got = {}
    for key, pat in (("throughput", r"\((\d+)/(\d+)\) of instruction forms have no throughput value"),
                     ("latency", r"\((\d+)/(\d+)\) of instruction forms have no latency value"),
                     ("port pressure", r"\((\d+)/(\d+)\) of instruction forms have no port pressure assignment")):
        mm = re.search(pat, text)
        got[key] = (int(mm.group(1)), int(mm.group(2))) if mm else None
    ok = all(got[k] == (want[k], len(forms)) for k in want)
    return ok, True, {"arch": arch, "verbose": verbose, "counts": want, "forms": len(forms)}


SMALL = ["n1", "tx2", "zen1", "hsw"]       # hsw: many forms without latency, several of them with the same display name


def db_check(a: int, verbose: bool) -> bool:
    """
    pre: 0 <= a < 4
    post: _
    """
    from vp.api import shard
    lo, hi = shard(8)
    if not (lo <= a * 2 + (1 if verbose else 0) < hi):
        return True
    ok, nt, sample = native(_dbcheck_concrete, SMALL[pick(a, 4)], True if verbose else False)
    return verdict(ok, nontrivial=nt, sample=sample)


CELLS = {
    "wf_lemma": {"fn": wf_lemma, "bound": "0-2 micro-ops, cycles 0..1000 symbolic, every port-set pair on a model with a multi-character port and a port whose name ('02') is also the string form of a port set, string and list form", "budget": {"quick": 150, "thorough": 300}},
    "wf_necessity": {"fn": wf_necessity, "bound": "one malformed list per WF clause: negative cycles, unknown port, non-pair, flat list, empty ports", "budget": {"quick": 60, "thorough": 60}},
    "db_check": {"fn": db_check, "bound": "--db-check summary counts (with and without --verbose) vs counts in the raw YAML for n1, tx2, zen1, hsw", "budget": {"quick": 170, "thorough": 300}, "shards": 8},
}
for _a in ARCHS + ISAS:
    CELLS["model_" + _a.replace("/", "_")] = {"kind": "smt", "fn": make_model_cell(_a), "replay": replay_entry,
                                             "bound": "all instruction forms, alternatives, load/store tables and defaults of %s.yml as loaded by the real loader; every well-formed form is costed (average_port_pressure); forms with alternative port assignments are also balanced (assign_optimal_throughput x2 next to a second instruction)" % _a,
                                             "budget": {"quick": 170, "thorough": 300}}
    CELLS["balance_" + _a.replace("/", "_")] = {"kind": "smt", "fn": make_model_cell(_a, balance_all=True), "replay": replay_entry, "tiers": ("thorough",),
                                               "bound": "as model_%s, and EVERY well-formed form is run through the two balancing passes" % _a, "budget": {"thorough": 900}}

META = {
    "functions": ["MachineModel.__init__ (YAML -> internal tables, alias expansion)", "MachineModel.average_port_pressure", "db_interface.sanity_check / _check_sanity_arch_db / _get_sanity_report"],
    "bounds": "every non-empty shipped model (%d micro-architectures, %d ISA databases) - about 18k entries; emptied bdw/csx/skx are skipped as the property says" % (len(ARCHS), len(ISAS)),
    "outside": "synthesising and matching one instruction per entry through the parser (the matcher is C07); the costing/balancing of each form is executed directly on the loaded entry",
    "assumptions": ["ground-table search: the solver decides over a concrete table, which is equivalent to a scan", "well-formedness predicate written from the statement in harness/c15_models.py"],
}
