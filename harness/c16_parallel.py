"""C16 - LCD result independent of process scheduling and worker count.

partition_* (E2): the statements computing workload/starts/ends/instrs are extracted from the AST of
   KernelDG.check_for_loopcarried_dep on every run and translated to z3: (i) integer tiling
   conditions for all 1 <= cores <= 256, 50 <= klen <= 4096, (ii) the float lemma
   int((k-1)/c) == (k-1)//c as a QF_BVFP query.
merge_order: the real method with the threshold lowered and Manager/Process/cpu_count replaced by
   stubs (harness/_procstub.py): workers publish in an order chosen by the solver; the returned
   dict (keys, members, latencies, iteration order) and the LCD report text must equal the
   sequential result.
real_processes: concrete witness with real multiprocessing (validates the stub contract).
"""
import ast
import inspect
import textwrap

from osaca.semantics import KernelDG
from osaca.frontend import Frontend

from vp.api import verdict, skip, shard
from vp.symx import pick, native
from vp.synth import DG, NativeParser, PX, iform, class_reg, mk_model
from harness._procstub import Env, installed


# ---------------------------------------------------------------- E2: partition arithmetic

class Unsupported(Exception):
    pass


def _extract():
    src = textwrap.dedent(inspect.getsource(KernelDG.check_for_loopcarried_dep))
    fn = ast.parse(src).body[0]
    found = {}
    for node in ast.walk(fn):
        if isinstance(node, ast.Assign) and len(node.targets) == 1 and isinstance(node.targets[0], ast.Name):
            if node.targets[0].id in ("workload", "starts", "ends", "instrs", "num_cores", "klen"):
                found.setdefault(node.targets[0].id, node.value)
    for k in ("workload", "starts", "ends", "instrs"):
        if k not in found:
            raise Unsupported("assignment to %s not found" % k)
    return found, src


def _tr(node, env, z3, lemmas):
    if isinstance(node, ast.Constant) and isinstance(node.value, int):
        return z3.IntVal(node.value)
    if isinstance(node, ast.Name):
        if node.id in env:
            return env[node.id]
        raise Unsupported("name " + node.id)
    if isinstance(node, ast.BinOp):
        if isinstance(node.op, ast.Div):
            raise Unsupported("true division outside int()")
        a, b = _tr(node.left, env, z3, lemmas), _tr(node.right, env, z3, lemmas)
        if isinstance(node.op, ast.Add):
            return a + b
        if isinstance(node.op, ast.Sub):
            return a - b
        if isinstance(node.op, ast.Mult):
            return a * b
        if isinstance(node.op, ast.FloorDiv):
            return a / b
        raise Unsupported("operator")
    if isinstance(node, ast.Call) and isinstance(node.func, ast.Name):
        if node.func.id == "int" and len(node.args) == 1 and isinstance(node.args[0], ast.BinOp) and isinstance(node.args[0].op, ast.Div):
            a = _tr(node.args[0].left, env, z3, lemmas)
            b = _tr(node.args[0].right, env, z3, lemmas)
            lemmas.append((ast.unparse(node.args[0].left), ast.unparse(node.args[0].right)))
            return a / b        # z3 Int division = floor for the non-negative operands here; float lemma separately
        if node.func.id in ("min", "max") and len(node.args) == 2:
            a, b = _tr(node.args[0], env, z3, lemmas), _tr(node.args[1], env, z3, lemmas)
            return z3.If(a <= b, a, b) if node.func.id == "min" else z3.If(a >= b, a, b)
    raise Unsupported(ast.dump(node)[:80])


def _per_tid(node, env, z3, lemmas, tid):
    """[<elt> for tid in range(num_cores)] -> elt with the loop variable bound to `tid`"""
    if not (isinstance(node, ast.ListComp) and len(node.generators) == 1):
        raise Unsupported("starts/ends are not simple list comprehensions")
    g = node.generators[0]
    if not (isinstance(g.iter, ast.Call) and isinstance(g.iter.func, ast.Name) and g.iter.func.id == "range" and len(g.iter.args) == 1
            and isinstance(g.iter.args[0], ast.Name) and g.iter.args[0].id == "num_cores" and not g.ifs and isinstance(g.target, ast.Name)):
        raise Unsupported("comprehension does not range over range(num_cores)")
    e2 = dict(env)
    e2[g.target.id] = tid
    return _tr(node.elt, e2, z3, lemmas)


def _check_instrs_shape(node):
    """instrs = [kernel[s:e] for s, e in zip(starts, ends)]"""
    ok = (isinstance(node, ast.ListComp) and len(node.generators) == 1 and isinstance(node.elt, ast.Subscript)
          and isinstance(node.elt.slice, ast.Slice) and ast.unparse(node.generators[0].iter).replace(" ", "") == "zip(starts,ends)"
          and ast.unparse(node.elt).replace(" ", "") in ("kernel[s:e]",))
    if not ok:
        raise Unsupported("instrs is not [kernel[s:e] for s, e in zip(starts, ends)]")


def _slices_concrete(k, c):
    """Run the extracted statements concretely (replay)."""
    found, _ = _extract()
    env = {"klen": k, "num_cores": c, "kernel": list(range(k))}
    for name in ("workload", "starts", "ends", "instrs"):
        env[name] = eval(compile(ast.Expression(found[name]), "<src>", "eval"), {"int": int, "min": min, "max": max, "range": range, "zip": zip}, env)
    return env["instrs"]


def partition_replay(k, c):
    cover = [0] * k
    for sl in _slices_concrete(k, c):
        for i in sl:
            cover[i] += 1
    return all(x == 1 for x in cover)


def partition_int(budget):
    import z3
    from vp import api
    try:
        found, _ = _extract()
        _check_instrs_shape(found["instrs"])
        k, c, t = z3.Int("k"), z3.Int("c"), z3.Int("t")
        lemmas = []
        env = {"klen": k, "num_cores": c}
        w = _tr(found["workload"], env, z3, lemmas)
        env["workload"] = w
        s_t = _per_tid(found["starts"], env, z3, lemmas, t)
        e_t = _per_tid(found["ends"], env, z3, lemmas, t)
        s_t1 = _per_tid(found["starts"], env, z3, lemmas, t + 1)
        s_0 = _per_tid(found["starts"], env, z3, lemmas, z3.IntVal(0))
        e_last = _per_tid(found["ends"], env, z3, lemmas, c - 1)
        s_last = _per_tid(found["starts"], env, z3, lemmas, c - 1)
    except Unsupported as e:
        return {"status": "inconclusive", "message": "E2 translator does not support the current source: %s" % e}
    dom = [c >= 1, c <= 256, k >= 50, k <= 4096]

    def clamp(x):
        return z3.If(x < 0, 0, z3.If(x > k, k, x))

    def eff(s, e):   # python slice kernel[s:e] for s,e >= 0 covers [min(s,k), max(min(s,k), min(e,k)))
        cs = clamp(s)
        ce = clamp(e)
        return cs, z3.If(ce < cs, cs, ce)

    es, ee = eff(s_t, e_t)
    es1, _ = eff(s_t1, s_t1)
    el_s, el_e = eff(s_last, e_last)
    goals = [
        ("negative slice bound", dom + [t >= 0, t < c, z3.Or(s_t < 0, e_t < 0)]),
        ("first slice does not start at 0", dom + [clamp(s_0) != 0]),
        ("gap or overlap between consecutive slices", dom + [t >= 0, t < c - 1, ee != es1]),
        ("last slice does not end at klen", dom + [el_e != k]),
    ]
    n = 0
    for desc, cons in goals:
        s = z3.Solver()
        s.set("timeout", int(max(10, budget / len(goals)) * 1000))
        s.add(*cons)
        r = str(s.check())
        n += 1
        if r == "sat":
            m = s.model()
            kv, cv = m.eval(k, model_completion=True).as_long(), m.eval(c, model_completion=True).as_long()
            return {"status": "counterexample", "args": [kv, cv], "kwargs": {}, "message": "%s: klen=%d cores=%d" % (desc, kv, cv), "paths": n}
        if r != "unsat":
            return {"status": "inconclusive", "message": "solver answered %s on: %s" % (r, desc), "paths": n}
    api.STATS["reached"] += n
    api.STATS["nontrivial"] += n
    api.SAMPLES.append({"engine": "E2 z3 (Int)", "obligations": [g[0] for g in goals], "float_lemmas_needed": lemmas,
                        "extracted": {k2: ast.unparse(v) for k2, v in found.items() if k2 in ("workload", "starts", "ends", "instrs")}})
    return {"status": "confirmed", "paths": n}


def _float_lemma(budget, kmax, cmax):
    """int(a / b) == a // b for a = klen-1, b = num_cores in range: IEEE double division, truncation."""
    import z3
    from vp import api
    try:
        found, _ = _extract()
        lem = []
        _tr(found["workload"], {"klen": z3.Int("k"), "num_cores": z3.Int("c")}, z3, lem)
    except Unsupported as e:
        return {"status": "inconclusive", "message": "E2 translator does not support the current source: %s" % e}
    if not lem:
        api.SAMPLES.append({"note": "no int(a/b) in the current source: lemma not needed"})
        api.STATS["reached"] += 1
        api.STATS["nontrivial"] += 1
        return {"status": "confirmed", "paths": 1}
    if lem != [("klen - 1", "num_cores")]:
        return {"status": "inconclusive", "message": "unexpected float division operands %r" % (lem,)}
    W = 16
    a, b = z3.BitVec("a", W), z3.BitVec("b", W)
    F = z3.Float64()
    fa = z3.fpToFP(z3.RNE(), z3.ZeroExt(48, a), F) if False else z3.fpSignedToFP(z3.RNE(), z3.ZeroExt(16, a), F)
    fb = z3.fpSignedToFP(z3.RNE(), z3.ZeroExt(16, b), F)
    q = z3.fpDiv(z3.RNE(), fa, fb)
    qi = z3.fpToSBV(z3.RTZ(), q, z3.BitVecSort(32))
    s = z3.Solver()
    s.set("timeout", int(budget * 1000))
    s.add(z3.ULE(a, kmax - 1), z3.UGE(b, 1), z3.ULE(b, cmax), qi != z3.ZeroExt(16, z3.UDiv(a, b)))
    r = str(s.check())
    if r == "sat":
        m = s.model()
        return {"status": "counterexample", "args": [m[a].as_long() + 1, m[b].as_long()], "kwargs": {}, "message": "int((k-1)/c) != (k-1)//c", "paths": 1}
    if r != "unsat":
        return {"status": "inconclusive", "message": "solver answered %s" % r, "paths": 1}
    api.STATS["reached"] += 1
    api.STATS["nontrivial"] += 1
    api.SAMPLES.append({"engine": "E2 z3 QF_BVFP", "lemma": "int((klen-1)/num_cores) == (klen-1)//num_cores", "klen<=": kmax, "cores<=": cmax})
    return {"status": "confirmed", "paths": 1}


def float_lemma_replay(k, c):
    return int((k - 1) / c) == (k - 1) // c


# ---------------------------------------------------------------- merge order (stub processes)

# kernels as (reads, write) register classes, several overlapping cycles
KERNELS = [
    [((0, 1), 0), ((0, 1), 1), ((1, 2), 2), ((3,), 3)],
    [((1,), 0), ((0,), 1), ((0, 2), 2), ((2,), 3), ((3, 4), 4)],
    [((0,), 0), ((0,), 1), ((1,), 2), ((2,), 0), ((4,), 4), ((4, 0), 5)],
    [((0,), 0), ((1,), 1), ((2,), 2), ((3,), 3), ((0, 1), 4)],       # four self loops, all latencies equal (ties)
    [((2,), 0), ((0,), 1), ((1,), 2), ((3,), 3)],                    # a 3-ring with latencies 0.1 / 0.2 / 0.3 (not exact in binary: the sum depends on the order of its terms)
]
EQUAL_LAT = {3}
FRACTION_LAT = {4: [0.1, 0.2, 0.3, 0.7]}
PERMS4 = []


def _perms(n):
    import itertools
    return list(itertools.permutations(range(n)))


LAYOUTS = [(1, None), (998, None), (1, 2), (2000, 1)]       # (first line number, position after which 10 line numbers are skipped)


def _build(kidx, layout=0):
    kernel = []
    first, gap = LAYOUTS[layout]
    for i, (rs, w) in enumerate(KERNELS[kidx]):
        ln = first + i + (10 if gap is not None and i > gap else 0)
        kernel.append(iform(ln, src=[class_reg("x86", c) for c in rs], dst=[class_reg("x86", w)], lat=(FRACTION_LAT[kidx][i] if kidx in FRACTION_LAT else (2 if kidx in EQUAL_LAT else 1 << i))))
    return kernel


def _result_key(g, deps):
    fe = Frontend.__new__(Frontend)
    rows = [(k, d["latency"], [x.line_number for x, _ in d["dependencies"]], d["root"].line_number) for k, d in deps.items()]
    return rows, fe.loopcarried_dependencies(deps)


def _merge_concrete(kidx, ncores, order, layout=0):
    seq = DG(_build(kidx, layout), NativeParser(PX), lcd=True)
    want = _result_key(seq, seq.get_loopcarried_dependencies())
    env = Env(ncores, order=list(order))
    kernel = _build(kidx, layout)
    g = DG(kernel, NativeParser(PX))
    g.INSTRUCTION_THRESHOLD = 1
    with installed(env):
        deps = g.check_for_loopcarried_dep(kernel, timeout=-1)
    got = _result_key(g, deps)
    ok = got == want and not g.timed_out
    ok = ok and all(p.njoined == 1 for p in env.procs) and not env.killed and len(env.procs) == ncores
    return ok, len(want[0]) > 0, {"kernel": kidx, "cores": ncores, "publish_order": list(order), "line_numbers": [k.line_number for k in kernel], "lcds": [r[0] for r in want[0]]}


CORES = [1, 2, 3, 4, 7, 16]


def merge_order(kidx: int, ci: int, perm: int, layout: int) -> bool:
    """
    pre: 0 <= kidx < 5 and 0 <= ci < 6 and 0 <= perm < 24 and 0 <= layout < 4
    post: _
    """
    if skip(locals()):
        return True
    k, c = pick(kidx, 5), CORES[pick(ci, 6)]
    pi = pick(perm, 24)
    n = min(c, 4)
    perms = _perms(n)
    if pi >= len(perms):
        return True
    order = list(perms[pi])
    if c > 4:
        # more than 4 workers: the permuted 4 publish first in that order, the rest in reverse
        order = order + list(range(c - 1, 3, -1))
    lay = pick(layout, 4)
    if lay and pi % 5 != 0:
        return True          # line-number layouts: every 5th publication order
    ok, nt, sample = native(_merge_concrete, k, c, order, lay)
    return verdict(ok, nontrivial=nt, sample=sample)


def _real_concrete(kidx, rot):
    """Real multiprocessing (no stubs): 52-line kernel = KERNELS[kidx] padded with independent
    instructions, rotated so that different instructions come last."""
    body = list(KERNELS[kidx])
    pad = [((20 + i,), 30 + i) for i in range(52 - len(body))]
    spec = body + pad
    spec = spec[rot:] + spec[:rot]

    def build():
        return [iform(i + 1, src=[_reg(c) for c in rs], dst=[_reg(w)], lat=1 + (i % 3)) for i, (rs, w) in enumerate(spec)]

    seq = DG(build(), NativeParser(PX))
    seq.INSTRUCTION_THRESHOLD = 10 ** 6
    want = _result_key(seq, seq.check_for_loopcarried_dep(seq.kernel, timeout=-1))
    par = DG(build(), PX)           # real parser object (picklable for real processes)
    got = _result_key(par, par.check_for_loopcarried_dep(par.kernel, timeout=-1))
    return got == want, len(want[0]) > 0, {"kernel": kidx, "rotation": rot, "lines": len(spec), "lcds": len(want[0])}


def _reg(c):
    from osaca.parser.register import RegisterOperand
    names = ["rax", "rbx", "rcx", "rdx", "rsi", "rdi", "r8", "r9", "r10", "r11", "r12", "r13", "r14", "r15"]
    if c < len(names):
        return RegisterOperand(name=names[c])
    return RegisterOperand(name="xmm%d" % (c % 32)) if c < 64 else RegisterOperand(name="ymm%d" % (c % 32))


def real_processes(kidx: int, rot: int) -> bool:
    """
    pre: 0 <= kidx < 3 and 0 <= rot < 6
    post: _
    """
    if skip(locals()):
        return True
    ok, nt, sample = native(_real_concrete, pick(kidx, 3), [0, 1, 2, 3, 5, 51][pick(rot, 6)])
    return verdict(ok, nontrivial=nt, sample=sample)


CELLS = {
    "partition_int": {"kind": "smt", "fn": partition_int, "replay": partition_replay,
                      "bound": "E2 (z3 Int): slices [start(tid), end(tid)) extracted from the source tile [0, klen) exactly, for all 1 <= cores <= 256, 50 <= klen <= 4096", "budget": {"quick": 150, "thorough": 600}},
    "float_lemma": {"kind": "smt", "fn": lambda b: _float_lemma(b, 256, 64), "replay": float_lemma_replay, "tiers": ("quick",),
                    "bound": "E2 (z3 QF_BVFP): int((k-1)/c) == (k-1)//c in IEEE double arithmetic for k <= 256, c <= 64", "budget": {"quick": 170}},
    "float_lemma_full": {"kind": "smt", "fn": lambda b: _float_lemma(b, 4096, 256), "replay": float_lemma_replay, "tiers": ("thorough",),
                         "bound": "same for k <= 4096, c <= 256", "budget": {"thorough": 1200}},
    "merge_order": {"fn": merge_order, "bound": "5 kernels with overlapping cycles, with several equal-latency cycles and with latencies that are not exact in binary (4-6 instructions, threshold lowered) x cpu_count in {1,2,3,4,7,16} x every publication order of the first 4 workers; line numbers starting at 1, at 998 (straddling 1000), and with a gap of 10 (as --lines with a hole produces) at 1 and at 2000", "budget": {"quick": 170, "thorough": 600}},
    "real_processes": {"fn": real_processes, "bound": "concrete witness with real multiprocessing: 52-line kernels x 6 rotations vs the sequential search", "budget": {"quick": 170, "thorough": 600}},
}

META = {
    "functions": ["KernelDG.check_for_loopcarried_dep (parallel branch: partition, process start/join, merge, de-duplication, sort)", "KernelDG._extend_path", "Frontend.loopcarried_dependencies"],
    "bounds": "partition: all cores <= 256, klen in 50..4096 (float lemma: quick k <= 256/c <= 64, thorough k <= 4096/c <= 256); merge: <= 16 stub workers, all orders of 4",
    "outside": "real OS scheduling beyond the concrete witness cell; byte-identical full CLI reports (follows from determinism of the merged dict under the stub contract)",
    "stubs": ["multiprocessing.Manager/Process/cpu_count rebound in osaca.semantics.kernel_dg (harness/_procstub.py): a worker's extend() calls are atomic and in its own order"],
    "assumptions": ["tiling conditions (contiguous, gap-free, ordered slices) are sufficient for 'every root exactly once'; a solver model is replayed by executing the extracted statements concretely",
                    "z3 Int division = floor for non-negative operands; the float-vs-floor agreement is the separate QF_BVFP lemma"],
}
