"""Cell factory shared by C09 (x86 AT&T) and C10 (AArch64)."""
import itertools

from vp.api import verdict, skip, shard
from vp.symx import pick, native


def make(isa, parser, variants, lone_variants, layouts, render, line_ok, comment_tok, mnemonics, file_lines, layout_set=None):
    """variants: operand variants usable at any position; lone_variants: only as a single operand"""
    V = variants
    NV = len(V)
    mem_last = isa != "x86"       # valid AArch64 operand order: a memory operand comes last

    def _pair_concrete(i, j, m):
        (t1, e1), (t2, e2) = V[i], V[j]
        line = render(mnemonics[m], [t1, t2], layouts[0])
        f = parser.parse_line(line, 7)
        ok = line_ok(f, mnemonics[m], [e1, e2], None) and f.line == line and f.line_number == 7
        return ok, True, {"line": line}

    def pairs(i: int, j: int, m: int) -> bool:
        """
        pre: 0 <= i < NV and 0 <= j < NV and 0 <= m < 2
        post: _
        """
        if skip(locals()):
            return True
        lo, hi = shard(NV)
        if not (lo <= i < hi):
            return True
        if mem_last and V[pick(i, NV)][1][0] in ("mem", "cond", "id"):
            return True       # AArch64: memory operands, condition codes and labels are not first of two
        ok, nt, sample = native(_pair_concrete, pick(i, NV), pick(j, NV), pick(m, 2))
        return verdict(ok, nontrivial=nt, sample=sample)

    pairs.__globals__["NV"] = NV

    # reduced variant set for counts 0..4 x layouts
    step = max(1, NV // 6)
    S = list(layout_set) if layout_set is not None else [V[k] for k in range(0, NV, step)][:6]
    NS = len(S)
    NL = len(layouts)

    def _layout_concrete(n, idx, lay, m):
        ops = [S[k] for k in idx[:n]]
        line = render(mnemonics[m], [o[0] for o in ops], layouts[lay])
        f = parser.parse_line(line, 3)
        return line_ok(f, mnemonics[m], [o[1] for o in ops], layouts[lay][3]) and f.line == line, n > 0, {"line": line}

    def layouts_counts(n: int, a: int, b: int, c: int, d: int, lay: int, m: int) -> bool:
        """
        pre: 0 <= n <= 4 and 0 <= a < NS and 0 <= b < NS and 0 <= c < NS and 0 <= d < NS and 0 <= lay < NL and 0 <= m < 2
        post: _
        """
        if skip(locals()):
            return True
        if (n < 4 and d != 0) or (n < 3 and c != 0) or (n < 2 and b != 0) or (n < 1 and a != 0):
            return True
        if n == 4 and (b != c):
            return True     # 4-operand lines: middle operands equal (keeps the family small)
        lo, hi = shard(NS * NL)
        if not (lo <= a * NL + lay < hi):
            return True
        nn = pick(n, 5)
        idx = [pick(a, NS), pick(b, NS), pick(c, NS), pick(d, NS)]
        if mem_last and any(S[k][1][0] in ("mem", "cond", "id") for k in idx[:max(nn - 1, 0)]):
            return True
        if mem_last and nn == 1 and S[idx[0]][1][0] == "cond":
            return True       # a condition code is never the only operand
        ok, nt, sample = native(_layout_concrete, nn, idx, pick(lay, NL), pick(m, 2))
        return verdict(ok, nontrivial=nt, sample=sample)

    layouts_counts.__globals__["NS"] = NS
    layouts_counts.__globals__["NL"] = NL

    L1 = lone_variants
    NL1 = len(L1)

    def _lone_concrete(i, lay):
        t, e = L1[i]
        line = render(mnemonics[2], [t], layouts[lay])
        f = parser.parse_line(line, 1)
        return line_ok(f, mnemonics[2], [e], layouts[lay][3]), True, {"line": line}

    def lone(i: int, lay: int) -> bool:
        """
        pre: 0 <= i < NL1 and 0 <= lay < NL
        post: _
        """
        if skip(locals()):
            return True
        ok, nt, sample = native(_lone_concrete, pick(i, NL1), pick(lay, NL))
        return verdict(ok, nontrivial=nt, sample=sample)

    lone.__globals__["NL1"] = NL1
    lone.__globals__["NL"] = NL

    # ---- files: every non-blank line exactly one entry with 1-based number and verbatim text
    KINDS = file_lines      # list of (text, class) with class in blank/comment/label/directive/instruction
    NK = len(KINDS)

    def _file_concrete(ks, start):
        lines = [KINDS[k][0] for k in ks]
        text = "\n".join(lines)
        res = parser.parse_file(text, start)
        want = [(i + 1 + start, KINDS[k][0], KINDS[k][1]) for i, k in enumerate(ks) if KINDS[k][1] != "blank"]
        ok = len(res) == len(want)
        for f, (ln, txt, cls) in zip(res, want):
            got_cls = "instruction" if f.mnemonic is not None else "label" if f.label is not None else "directive" if f.directive is not None else "comment" if f.comment is not None else "?"
            n_classes = sum(1 for x in (f.mnemonic, f.label, f.directive) if x is not None)
            ok = ok and f.line_number == ln and f.line == txt and got_cls == cls and n_classes <= 1
        return ok, len(want) > 0, {"file": lines, "start_line": start}

    def files(k0: int, k1: int, k2: int, k3: int, start: int) -> bool:
        """
        pre: 0 <= k0 < NK and 0 <= k1 < NK and 0 <= k2 < NK and 0 <= k3 < NK and 0 <= start <= 1
        post: _
        """
        if skip(locals()):
            return True
        lo, hi = shard(NK)
        if not (lo <= k0 < hi):
            return True
        ok, nt, sample = native(_file_concrete, [pick(k0, NK), pick(k1, NK), pick(k2, NK), pick(k3, NK)], pick(start, 2) * 40)
        return verdict(ok, nontrivial=nt, sample=sample)

    files.__globals__["NK"] = NK

    def files3(k0: int, k1: int, k2: int, start: int) -> bool:
        """
        pre: 0 <= k0 < NK and 0 <= k1 < NK and 0 <= k2 < NK and 0 <= start <= 1
        post: _
        """
        if skip(locals()):
            return True
        lo, hi = shard(NK)
        if not (lo <= k0 < hi):
            return True
        ok, nt, sample = native(_file_concrete, [pick(k0, NK), pick(k1, NK), pick(k2, NK)], pick(start, 2) * 40)
        return verdict(ok, nontrivial=nt, sample=sample)

    files3.__globals__["NK"] = NK

    def pairs_quick(i: int, j: int) -> bool:
        """
        pre: 0 <= i < NV and 0 <= j < NV
        post: _
        """
        if skip(locals()):
            return True
        lo, hi = shard(NV)
        if not (lo <= i < hi):
            return True
        if mem_last and V[pick(i, NV)][1][0] in ("mem", "cond"):
            return True
        ok, nt, sample = native(_pair_concrete, pick(i, NV), pick(j, NV), 0)
        return verdict(ok, nontrivial=nt, sample=sample)

    pairs_quick.__globals__["NV"] = NV

    # ---- bookkeeping with the line parser stubbed (numbers symbolic, traced)
    def numbering(b0: bool, b1: bool, b2: bool, b3: bool, b4: bool, start: int) -> bool:
        """
        pre: 0 <= start <= 100000
        post: _
        """
        if skip(locals()):
            return True
        blanks = [b0, b1, b2, b3, b4]
        lines = [("" if b else "x%d" % i) for i, b in enumerate(blanks)]
        seen = []
        orig = type(parser).parse_line
        try:
            type(parser).parse_line = lambda self, line, line_number=None: (line, line_number)
            res = parser.parse_file("\n".join(lines), start)
        finally:
            type(parser).parse_line = orig
        want = [(l, i + 1 + start) for i, l in enumerate(lines) if l != ""]
        return verdict(res == want, nontrivial=len(want) > 0, sample=lambda: {"blank": blanks, "start_line": start})

    name = "x86" if isa == "x86" else "a64"
    cells = {
        "pairs_quick": {"fn": pairs_quick, "tiers": ("quick",), "bound": "all ordered pairs of %d operand variants with one mnemonic" % NV, "budget": {"quick": 170}, "shards": 16},
        "files3": {"fn": files3, "tiers": ("quick",), "bound": "all 3-line files over %d line kinds x start_line {0,40}" % NK, "budget": {"quick": 170}, "shards": NK},
        "pairs": {"fn": pairs, "tiers": ("thorough",), "bound": "all ordered pairs of %d operand variants (every register width/class, immediates decimal/hex/negative/64-bit, every base/index/displacement/scale memory shape ...) with 2 mnemonics" % NV,
                  "budget": {"quick": 170, "thorough": 1200}, "shards": 32},
        "layouts_counts": {"fn": layouts_counts, "bound": "0-4 operands over %d representative variants x %d layouts (tabs, spaces around separators, trailing comment) x 2 mnemonics" % (NS, NL), "budget": {"quick": 170, "thorough": 600}, "shards": 15},
        "lone": {"fn": lone, "bound": "%d single-operand variants (labels / identifiers ...) x layouts" % NL1, "budget": {"quick": 120, "thorough": 300}},
        "files": {"fn": files, "tiers": ("thorough",), "bound": "all 4-line files over %d line kinds (blank, whitespace-only, comment, label, label+comment, directive, instruction with/without comment) x start_line {0,40}" % NK, "budget": {"quick": 170, "thorough": 600}, "shards": NK},
        "numbering": {"fn": numbering, "bound": "BaseParser.parse_file bookkeeping with the line parser stubbed: 5 lines blank/non-blank symbolic, start_line any int 0..100000 (traced)", "budget": {"quick": 120, "thorough": 300}},
    }
    return cells
