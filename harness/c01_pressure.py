"""C01 - per-instruction port pressure is a feasible fractional split of its micro-ops.

uniform_*  : numbers symbolic (traced): MachineModel.average_port_pressure and
             ArchSemantics.assign_tp_lt/_handle_instruction_found on a synthetic model, all
             cycle counts, all port-set shapes; real-based floats (algebra of the 1/N split).
sum_*      : get_throughput_sum over lines with zero / non-zero throughput.
opt_*      : structure symbolic (solver enumerates port-set shapes / cycle selectors / pass
             count), numbers concrete: the real assign_optimal_throughput runs natively on each
             concrete kernel (real IEEE arithmetic), Hall condition checked per instruction.
"""
from osaca.parser.instruction_form import InstructionForm
from osaca.parser.register import RegisterOperand
from osaca.semantics import INSTR_FLAGS, ArchSemantics

from vp.api import verdict, skip, shard, kf_state
from vp.symx import pick, native
from vp.synth import mk_model, mk_sem, add_entry, iform, class_reg
from harness._ports import PORTS3, PORTS3M, subsets, uop, hall_ok, hall_range_ok, totals_ok, run_opt, build_kernel

SUB3 = subsets(3)  # 7 non-empty subsets


# ---- uniform: numbers symbolic ---------------------------------------------------------------

def _uniform(ports, us):
    """us = [(cycles symbolic, idxs concrete)]"""
    model = mk_model("x86", ports=list(ports))
    uops = [uop(ports, c, ix) for c, ix in us]
    p = model.average_port_pressure(uops)
    n = len(ports)
    ok = len(p) == n
    allowed = set()
    for _, ix in us:
        allowed |= set(ix)
    for q in range(n):
        ok = ok and p[q] >= 0 and (q in allowed or p[q] == 0)
    ok = ok and sum(p) == sum(c for c, _ in us)
    for mask in range(1, 1 << n):
        S = set(i for i in range(n) if mask >> i & 1)
        confined = sum(c for c, ix in us if set(ix) <= S)
        ok = ok and sum(p[q] for q in S) >= confined
    return ok


def uniform2(c0: float, c1: float, s0: int, s1: int, multichar: bool) -> bool:
    """
    pre: 0 <= c0 <= 64 and 0 <= c1 <= 64 and 0 <= s0 < 7 and 0 <= s1 < 7
    post: _
    """
    if skip(locals()):
        return True
    a, b = SUB3[pick(s0, 7)], SUB3[pick(s1, 7)]
    ok = _uniform(PORTS3M if multichar else PORTS3, [(c0, a), (c1, b)])
    return verdict(ok, nontrivial=True, sample=lambda: {"uops": [[c0, list(a)], [c1, list(b)]], "multichar": multichar})


def uniform3(c0: float, c1: float, c2: float, s0: int, s1: int, s2: int) -> bool:
    """
    pre: 0 <= c0 <= 64 and 0 <= c1 <= 64 and 0 <= c2 <= 64 and 0 <= s0 < 7 and 0 <= s1 < 7 and 0 <= s2 < 7
    post: _
    """
    if skip(locals()):
        return True
    lo, hi = shard(7)
    if not (lo <= s0 < hi):
        return True
    a, b, c = SUB3[pick(s0, 7)], SUB3[pick(s1, 7)], SUB3[pick(s2, 7)]
    ok = _uniform(PORTS3M, [(c0, a), (c1, b), (c2, c)])
    return verdict(ok, nontrivial=True, sample=lambda: {"uops": [[c0, list(a)], [c1, list(b)], [c2, list(c)]]})


def uniform_int(c0: int, c1: int, s0: int, s1: int) -> bool:
    """
    pre: 0 <= c0 <= 64 and 0 <= c1 <= 64 and 0 <= s0 < 7 and 0 <= s1 < 7
    post: _
    """
    if skip(locals()):
        return True
    a, b = SUB3[pick(s0, 7)], SUB3[pick(s1, 7)]
    ok = _uniform(PORTS3, [(c0, a), (c1, b)])
    return verdict(ok, nontrivial=True, sample=lambda: {"uops": [[c0, list(a)], [c1, list(b)]]})


PORTS_MIX = ["0", "1", "2", "12", "01"]      # multi-digit names that concatenations of single-digit ports spell


def uniform_substring(c0: int, c1: int, s0: int, s1: int) -> bool:
    """
    pre: 0 <= c0 <= 64 and 0 <= c1 <= 64 and 0 <= s0 < 7 and 0 <= s1 < 9
    post: _
    """
    # single-digit port groups written as strings ('012') next to ports named '12' and '01'
    # (as in zen3 / zen4 / v2 / m1): a group must only load the ports it lists
    if skip(locals()):
        return True
    a = SUB3[pick(s0, 7)]
    k = pick(s1, 9)
    model = mk_model("x86", ports=list(PORTS_MIX))
    us = [[c0, "".join(PORTS_MIX[i] for i in a)]]
    idx = [set(a)]
    if k < 7:
        b = SUB3[k]
        us.append([c1, "".join(PORTS_MIX[i] for i in b)])
        idx.append(set(b))
    else:
        us.append([c1, [PORTS_MIX[3]] if k == 7 else [PORTS_MIX[3], PORTS_MIX[4]]])
        idx.append({3} if k == 7 else {3, 4})
    p = model.average_port_pressure(us)
    ok = len(p) == 5 and sum(p) == c0 + c1
    for q in range(5):
        want = 0
        for (c, _), ix in zip(us, idx):
            if q in ix:
                want = want + c / len(ix)
        ok = ok and p[q] == want
    return verdict(ok, nontrivial=True, sample=lambda: {"uops": us})


def uniform_assign(c0: float, s0: int, tp_present: bool, tp: float, lat: float) -> bool:
    """
    pre: 0 <= c0 <= 64 and 0 <= s0 < 7 and 0 <= tp <= 64 and 0 <= lat <= 64
    post: _
    """
    # through assign_tp_lt / _handle_instruction_found on a one-entry model
    if skip(locals()):
        return True
    a = SUB3[pick(s0, 7)]
    model = mk_model("x86", ports=list(PORTS3M))
    uops = [uop(PORTS3M, c0, a)]
    add_entry(model, "op", [RegisterOperand(name="gpr")], tp=(tp if tp_present else None), lat=lat, uops=uops)
    sem = mk_sem(model)
    f = InstructionForm(mnemonic="op", operands=[class_reg("x86", 0)], line="op %rax", line_number=1)
    f.flags = []
    sem.assign_src_dst(f)
    sem.assign_tp_lt(f)
    p = f.port_pressure
    ok = len(p) == 3 and sum(p) == c0 and all((q in a and p[q] * len(a) == c0) or (q not in a and p[q] == 0) for q in range(3))
    ok = ok and f.port_uops == uops
    ok = ok and ((INSTR_FLAGS.TP_UNKWN in f.flags) == (not tp_present))
    ok = ok and ((INSTR_FLAGS.NOT_BOUND in f.flags) == (c0 == 0 and bool(tp_present)))
    ok = ok and f.throughput == (tp if tp_present else 0) and f.latency == lat
    return verdict(ok, nontrivial=True, sample=lambda: {"cycles": c0, "ports": list(a), "tp_present": tp_present})


# ---- totals ---------------------------------------------------------------------------------

GRID = [0.0, 0.25, 0.33, 0.5, 1.0, 1.005, 9.995]


def _sum_concrete(tps, idx):
    kernel = []
    for i, (t, (a, b)) in enumerate(zip(tps, idx)):
        kernel.append(iform(i + 1, tp=t, pressure=[GRID[a], GRID[b]]))
    sums = ArchSemantics.get_throughput_sum(kernel)
    return totals_ok(kernel, sums), any(t != 0 for t in tps), {"tp": tps, "rows": [[GRID[a], GRID[b]] for a, b in idx], "sums": sums}


def sum_rows2(z0: bool, z1: bool, a0: int, b0: int, a1: int, b1: int, one: bool) -> bool:
    """
    pre: 0 <= a0 < 7 and 0 <= b0 < 7 and 0 <= a1 < 7 and 0 <= b1 < 7
    post: _
    """
    if skip(locals()):
        return True
    lo, hi = shard(7)
    if not (lo <= a0 < hi):
        return True
    idx = [(pick(a0, 7), pick(b0, 7)), (pick(a1, 7), pick(b1, 7))]
    zs = [True if z0 else False, True if z1 else False]
    if one:
        if idx[1] != (0, 0) or zs[1]:
            return True  # single-line kernels: one representative of the unused slot
        idx, zs = idx[:1], zs[:1]
    tps = [0.0 if z else 1.5 for z in zs]
    ok, nt, sample = native(_sum_concrete, tps, idx)
    return verdict(ok, nontrivial=nt, sample=sample)


GRID4 = [0, 3, 5, 6]  # indices into GRID: 0, .5, 1.005, 9.995


def sum_rows3(z0: bool, z1: bool, z2: bool, a0: int, b0: int, a1: int, b1: int, a2: int, b2: int) -> bool:
    """
    pre: 0 <= a0 < 4 and 0 <= b0 < 4 and 0 <= a1 < 4 and 0 <= b1 < 4 and 0 <= a2 < 4 and 0 <= b2 < 4
    post: _
    """
    if skip(locals()):
        return True
    lo, hi = shard(16)
    if not (lo <= a0 * 4 + b0 < hi):
        return True
    idx = [(GRID4[pick(a0, 4)], GRID4[pick(b0, 4)]), (GRID4[pick(a1, 4)], GRID4[pick(b1, 4)]), (GRID4[pick(a2, 4)], GRID4[pick(b2, 4)])]
    tps = [0.0 if z else 1.5 for z in (z0, z1, z2)]
    ok, nt, sample = native(_sum_concrete, tps, idx)
    return verdict(ok, nontrivial=nt, sample=sample)


# ---- optimised: structure symbolic, numbers concrete, balancer native ------------------------

FORMS14 = [(c, s) for c in (1, 2) for s in SUB3]          # single micro-op forms
CYC = [1, 2]


def _opt_concrete(ports, instrs, passes, subset_clause=True):
    """instrs = [[(cyc, idxs), ...], ...]"""
    sem, kernel, uniform, sums = run_opt(ports, instrs, passes)
    n = len(ports)
    ok = totals_ok(kernel, sums)
    for f, us in zip(kernel, instrs):
        tol = 0.01 * len(us) * passes + 1e-6
        if not hall_ok(n, us, f.port_pressure, tol, subset_clause):
            ok = False
    return ok, True, {"ports": ports, "instrs": [[list(u) for u in us] for us in instrs], "passes": passes,
                      "pressure": [list(f.port_pressure) for f in kernel]}


def _overlap_diff(us):
    for i in range(len(us)):
        for j in range(i + 1, len(us)):
            a, b = set(us[i][1]), set(us[j][1])
            if a != b and a & b:
                return True
    return False


def _opt(ports, instrs, passes):
    feat = {"passes": passes, "overlap_diff": any(_overlap_diff(us) for us in instrs)}
    st = kf_state(feat)
    if st == "skip":
        return True
    # inside a known finding only the subset ("Hall") clause is dropped; sign, support, sum and
    # totals are still checked there
    ok, nt, sample = native(_opt_concrete, list(ports), [[(c, tuple(ix)) for c, ix in us] for us in instrs], passes, st == "full")
    return verdict(ok, nontrivial=nt, sample=sample)


def opt_2x1(u0: int, u1: int, v0: int, twice: bool) -> bool:
    """
    pre: 0 <= u0 < 14 and 0 <= u1 < 14 and 0 <= v0 < 14
    post: _
    """
    # instruction A with two micro-ops, instruction B with one; 3 ports
    lo, hi = shard(14)
    if not (lo <= u0 < hi):
        return True
    a0, a1, b0 = FORMS14[pick(u0, 14)], FORMS14[pick(u1, 14)], FORMS14[pick(v0, 14)]
    return _opt(PORTS3, [[a0, a1], [b0]], 2 if twice else 1)


def opt_1x1x1(u0: int, v0: int, w0: int, twice: bool, multichar: bool) -> bool:
    """
    pre: 0 <= u0 < 14 and 0 <= v0 < 14 and 0 <= w0 < 14
    post: _
    """
    lo, hi = shard(14)
    if not (lo <= u0 < hi):
        return True
    a, b, c = FORMS14[pick(u0, 14)], FORMS14[pick(v0, 14)], FORMS14[pick(w0, 14)]
    return _opt(PORTS3M if multichar else PORTS3, [[a], [b], [c]], 2 if twice else 1)


def opt_2x2(u0: int, u1: int, v0: int, v1: int, twice: bool) -> bool:
    """
    pre: 0 <= u0 < 14 and 0 <= u1 < 14 and 0 <= v0 < 14 and 0 <= v1 < 14
    post: _
    """
    lo, hi = shard(196)
    if not (lo <= u0 * 14 + u1 < hi):
        return True
    a0, a1, b0, b1 = (FORMS14[pick(x, 14)] for x in (u0, u1, v0, v1))
    return _opt(PORTS3, [[a0, a1], [b0, b1]], 2 if twice else 1)


def _alt_concrete(ports, instrs, alt_pos, alt_form, passes):
    """instrs: single-micro-op forms; instruction alt_pos additionally has a second alternative."""
    from harness._ports import build_kernel
    sem, model, kernel = build_kernel(ports, [[f] for f in instrs])
    a0 = uop(ports, *instrs[alt_pos])
    a1 = uop(ports, *alt_form)
    kernel[alt_pos].port_uops = {0: [a0], 1: [a1]}      # as _handle_instruction_found hands it over
    kernel[alt_pos].port_pressure = model.average_port_pressure({0: [a0], 1: [a1]})
    for _ in range(passes):
        sem.assign_optimal_throughput(kernel)
    sums = ArchSemantics.get_throughput_sum(kernel)
    ok = totals_ok(kernel, sums)
    n = len(ports)
    for i, f in enumerate(kernel):
        options = [[instrs[i]]] + ([[alt_form]] if i == alt_pos else [])
        chosen = None
        for o in options:
            if f.port_uops == [uop(ports, *o[0])]:
                chosen = o
        if chosen is None:
            ok = False      # the reported micro-op list is not one of the instruction's alternatives
        elif not hall_ok(n, chosen, f.port_pressure, 0.01 * passes + 1e-6):
            ok = False
    return ok, True, {"instrs": [list(map(list, [[f[0]], f[1]])) for f in instrs], "alt_pos": alt_pos, "alt": [alt_form[0], list(alt_form[1])],
                      "passes": passes, "pressure": [list(f.port_pressure) for f in kernel]}


def _opt_alt(n, u0, u1, u2, alt, pos, twice):
    fs = [FORMS14[pick(u0, n)], FORMS14[pick(u1, n)], FORMS14[pick(u2, n)]]
    af = FORMS14[pick(alt, n)]
    p = pick(pos, 3)
    if af == fs[p]:
        return True
    if skip({"alternatives": True}):
        return True
    ok, nt, sample = native(_alt_concrete, list(PORTS3), [(c, tuple(ix)) for c, ix in fs], p, (af[0], tuple(af[1])), 2 if twice else 1)
    return verdict(ok, nontrivial=nt, sample=sample)


def opt_alt(u0: int, u1: int, u2: int, alt: int, pos: int, twice: bool) -> bool:
    """
    pre: 0 <= u0 < 7 and 0 <= u1 < 7 and 0 <= u2 < 7 and 0 <= alt < 7 and 0 <= pos < 3
    post: _
    """
    # three single-micro-op instructions (one-cycle forms); the one at position pos has a second
    # alternative port assignment (dict port_uops as in a64fx smlal)
    lo, hi = shard(49)
    if not (lo <= u0 * 7 + u1 < hi):
        return True
    return _opt_alt(7, u0, u1, u2, alt, pos, twice)


def opt_alt_full(u0: int, u1: int, u2: int, alt: int, pos: int, twice: bool) -> bool:
    """
    pre: 0 <= u0 < 14 and 0 <= u1 < 14 and 0 <= u2 < 14 and 0 <= alt < 14 and 0 <= pos < 3
    post: _
    """
    lo, hi = shard(196)
    if not (lo <= u0 * 14 + u1 < hi):
        return True
    if u0 < 7 and u1 < 7 and u2 < 7 and alt < 7:
        return True    # covered by opt_alt
    return _opt_alt(14, u0, u1, u2, alt, pos, twice)


def _alt_multi_concrete(ports, xa, xb, reps, a0f, a1f):
    """reps two-micro-op instructions, then one instruction with two alternative port assignments; one pass"""
    from harness._ports import build_kernel
    x = [(1, xa), (1, xb)]
    sem, model, kernel = build_kernel(ports, [list(x) for _ in range(reps)] + [[(1, a0f)]])
    a0, a1 = uop(ports, 1, a0f), uop(ports, 1, a1f)
    kernel[-1].port_uops = {0: [a0], 1: [a1]}
    kernel[-1].port_pressure = model.average_port_pressure({0: [a0], 1: [a1]})
    sem.assign_optimal_throughput(kernel)
    ok = totals_ok(kernel, ArchSemantics.get_throughput_sum(kernel))
    n = len(ports)
    for f in kernel[:-1]:
        ok = ok and hall_ok(n, x, f.port_pressure, 0.01 + 1e-6)
    last = kernel[-1]
    chosen = [o for o in ([(1, a0f)], [(1, a1f)]) if last.port_uops == [uop(ports, *o[0])]]
    ok = ok and len(chosen) == 1 and hall_ok(n, chosen[0], last.port_pressure, 0.01 + 1e-6)
    return ok, True, {"two_uop_instruction": [list(xa), list(xb)], "repeated": reps, "alternatives": [list(a0f), list(a1f)], "pressure": [list(f.port_pressure) for f in kernel]}


def opt_alt_multi(xa: int, xb: int, reps: int, a0: int, a1: int) -> bool:
    """
    pre: 0 <= xa < 7 and 0 <= xb < 7 and 1 <= reps <= 3 and 0 <= a0 < 7 and 0 <= a1 < 7
    post: _
    """
    # the instruction with alternatives is NOT the first line and follows instructions with two micro-ops
    # (nested / overlapping port sets): the trial run for the alternative must not touch the real kernel
    lo, hi = shard(49)
    if not (lo <= xa * 7 + xb < hi):
        return True
    if a0 == a1:
        return True
    if skip({"alternatives": True}):
        return True
    ok, nt, sample = native(_alt_multi_concrete, list(PORTS3), tuple(SUB3[pick(xa, 7)]), tuple(SUB3[pick(xb, 7)]), pick(reps - 1, 3) + 1, tuple(SUB3[pick(a0, 7)]), tuple(SUB3[pick(a1, 7)]))
    return verdict(ok, nontrivial=nt, sample=sample)


def opt_half(u0: int, v0: int, h0: bool, h1: bool, twice: bool) -> bool:
    """
    pre: 0 <= u0 < 7 and 0 <= v0 < 7
    post: _
    """
    # half-cycle micro-ops (0.5 cy) next to 1-cycle ones
    a, b = SUB3[pick(u0, 7)], SUB3[pick(v0, 7)]
    return _opt(PORTS3, [[(0.5 if h0 else 1, a)], [(0.5 if h1 else 1, b)]], 2 if twice else 1)


# ---- shipped example / test kernels on shipped models --------------------------------------------------

def _shipped_concrete(ex, mode):
    """mode 0: uniform (--fixed), 1: one balancing pass, 2: two passes (as the CLI)"""
    from harness._pipeline import example_lines, EXAMPLES, model, parser_for
    arch = EXAMPLES[ex][1]
    m, sem = model(arch)
    isa = m.get_ISA()
    kernel = parser_for(isa).parse_file("\n".join(example_lines(ex)) + "\n")
    sem.add_semantics(kernel)
    for _ in range(mode):
        sem.assign_optimal_throughput(kernel)
    ports = m.get_ports()
    ok = totals_ok(kernel, ArchSemantics.get_throughput_sum(kernel))
    n_checked = 0
    for k in kernel:
        us_raw = k.port_uops
        if k.mnemonic is None or not isinstance(us_raw, list):
            continue
        us = [(c, tuple(ports.index(q) for q in ps)) for c, ps in us_raw]
        composed = (INSTR_FLAGS.HAS_LD in k.flags or INSTR_FLAGS.HAS_ST in k.flags) and INSTR_FLAGS.LD not in k.flags
        has_mult = "load_throughput_multiplier" in m or "store_throughput_multiplier" in m
        overlap = _overlap_diff(us)
        p = list(k.port_pressure)
        allowed = set(i for _, ix in us for i in ix)
        tol = 0.01 * max(len(us), 1) * max(mode, 1) + 1e-6
        if any(x < -tol for x in p) or any(abs(p[q]) > tol for q in range(len(ports)) if q not in allowed):
            ok = False
        if not (composed and has_mult):
            # without a multiplier in play the full feasibility check applies (subset clause dropped for
            # the recorded second-pass finding)
            if not hall_ok(len(ports), us, p, tol, subset_clause=not (mode == 2 and overlap)):
                ok = False
        else:
            # the load / store micro-ops are scaled by the model's multiplier for the data register's
            # type, the register form's are not: bounds with the smallest / largest multiplier
            mults = [v for key in ("load_throughput_multiplier", "store_throughput_multiplier") if key in m for v in m[key].values()]
            if not hall_range_ok(len(ports), us, p, tol, min([1.0] + mults), max([1.0] + mults), subset_clause=not (mode == 2 and overlap)):
                ok = False
        n_checked += 1
    return ok, n_checked > 0, {"kernel": EXAMPLES[ex][0], "arch": arch, "mode": ["uniform", "one pass", "two passes"][mode], "instructions": n_checked}


def shipped(ex: int, mode: int) -> bool:
    """
    pre: 0 <= ex < 16 and 0 <= mode <= 2
    post: _
    """
    lo, hi = shard(16)
    if not (lo <= ex < hi):
        return True
    ok, nt, sample = native(_shipped_concrete, pick(ex, 16), pick(mode, 3))
    return verdict(ok, nontrivial=nt, sample=sample)


CELLS = {
    "uniform2": {"fn": uniform2, "bound": "3 ports (one multi-character name in list form), 2 micro-ops, every port-set pair, all real-valued cycles in [0,64]; Hall condition exact", "budget": {"quick": 170, "thorough": 600}},
    "uniform_substring": {"fn": uniform_substring, "bound": "ports 0,1,2 plus ports named '12' and '01': string groups over single-digit ports next to list groups over the multi-digit ones, int cycles 0..64", "budget": {"quick": 150, "thorough": 300}},
    "uniform3": {"fn": uniform3, "tiers": ("thorough",), "bound": "3 micro-ops, every port-set triple, all real-valued cycles in [0,64]", "budget": {"thorough": 1200}, "shards": 7},
    "uniform_int": {"fn": uniform_int, "tiers": ("thorough",), "bound": "2 micro-ops, int cycles 0..64 (mixed int/real queries are slow)", "budget": {"thorough": 1500}},
    "uniform_assign": {"fn": uniform_assign, "bound": "assign_tp_lt on a one-entry synthetic model: all cycles/throughput/latency ints, throughput present/absent, flags", "budget": {"quick": 150, "thorough": 600}},
    "sum_rows2": {"fn": sum_rows2, "bound": "1-2 lines, throughput zero/non-zero per line, pressures from {0,.25,.33,.5,1,1.005,9.995} on 2 ports", "budget": {"quick": 170, "thorough": 600}, "shards": 7},
    "sum_rows3": {"fn": sum_rows3, "tiers": ("thorough",), "bound": "3 lines, throughput zero/non-zero per line, pressures from {0,.5,1.005,9.995}", "budget": {"thorough": 900}, "shards": 16},
    "opt_2x1": {"fn": opt_2x1, "bound": "3 ports; instruction A = 2 micro-ops, B = 1 micro-op, each over 7 port sets x {1,2} cycles; 1 or 2 balancing passes", "budget": {"quick": 170, "thorough": 600}, "shards": 14},
    "opt_1x1x1": {"fn": opt_1x1x1, "bound": "3 single-micro-op instructions over 14 forms; 1 or 2 passes; with/without multi-character port", "budget": {"quick": 170, "thorough": 600}, "shards": 14},
    "opt_2x2": {"fn": opt_2x2, "tiers": ("thorough",), "bound": "two instructions with 2 micro-ops each over 14 forms (38416 kernels) x 1/2 passes", "budget": {"thorough": 1500}, "shards": 49},
    "opt_alt": {"fn": opt_alt, "bound": "3 single-micro-op instructions over the 7 one-cycle forms, the instruction at each position with a second alternative port assignment (dict port_uops); 1 or 2 passes", "budget": {"quick": 170, "thorough": 900}, "shards": 16},
    "opt_alt_multi": {"fn": opt_alt_multi, "bound": "1-3 copies of a two-micro-op instruction (every pair of the 7 port sets) followed by an instruction with two alternative port assignments (every ordered pair of port sets); one balancing pass; Hall condition for every instruction", "budget": {"quick": 170, "thorough": 600}, "shards": 16},
    "opt_alt_full": {"fn": opt_alt_full, "tiers": ("thorough",), "bound": "same over all 14 forms (two-cycle forms included)", "budget": {"thorough": 1800}, "shards": 48},
    "shipped": {"fn": shipped, "bound": "16 shipped example/test kernels on zen1/zen2/tx2 x {uniform, one pass, two passes}: per-instruction feasibility against the micro-ops the analysis reports (memory-composed forms on models with multipliers: bounds with the smallest and largest multiplier; the exact scaling is C08's), totals = column sums",
                "budget": {"quick": 170, "thorough": 300}, "shards": 16},
    "opt_half": {"fn": opt_half, "bound": "two single-micro-op instructions with 0.5 or 1 cycle", "budget": {"quick": 120, "thorough": 300}},
}

META = {
    "functions": ["MachineModel.average_port_pressure", "ArchSemantics.assign_tp_lt", "ArchSemantics._handle_instruction_found", "ArchSemantics.assign_optimal_throughput",
                  "ArchSemantics.get_throughput_sum"],
    "bounds": "synthetic 3-port models; uniform: cycles symbolic 0..64; optimised: kernels of 2-3 instructions, <=2 micro-ops each, cycles in {0.5,1,2}, every port-set shape, 1 or 2 passes",
    "outside": "shipped models, kernels longer than 3, hidden-load mode, load/store multipliers (C08)",
    "assumptions": ["uniform cells use CrossHair's real-based floats: the claim is the algebra of the 1/N split, not IEEE rounding",
                    "optimised cells: the solver decides the structure; each path is one native IEEE run of the real balancer; tolerance 0.01 cy per micro-op and pass (+1e-6)"],
}
