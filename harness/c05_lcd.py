"""C05 - loop-carried dependencies = cross-iteration dependency cycles.

(i) structure cells: register slots are symbolic ints, canonicalised to an equality
pattern (vp.symx.canon); every register assignment with that coincidence structure is
covered by one path.  Latencies are distinct powers of two so a sum identifies its members.
(ii) number cells: fixed cycle shapes, all latencies symbolic.
Real code: KernelDG.create_DG on the doubled kernel, check_for_loopcarried_dep (sequential branch; lcd3_workers: multi-process
branch), get_loopcarried_dependencies, Frontend.full_analysis_dict (LCD summary).
Oracle: vp.synth.ref_raw over two concatenated iterations + ref_lcd.
"""
from osaca.frontend import Frontend
from osaca.parser.flag import FlagOperand

from vp.api import verdict, skip, shard, in_shard_index
from vp.symx import canon, native, pattern_index
from vp.synth import DG, NativeParser, PX, PA, iform, class_reg, ref_raw, ref_lcd, mk_model


def _frontend(isa):
    f = Frontend.__new__(Frontend)
    f._filename = "k.s"
    f._arch = "syn"
    f._machine_model = mk_model(isa, ports=["0"])
    return f


def _observe(isa, kernel, flag_deps=False, workers=0):
    parser = NativeParser(PX if isa == "x86" else PA)
    if workers:
        # the multi-process search (threshold lowered) with stub processes: the same cycles have to come out
        from harness._procstub import Env, installed
        g = DG(kernel, parser, flag_dependencies=flag_deps)
        g.INSTRUCTION_THRESHOLD = 1
        with installed(Env(workers)):
            g.loopcarried_deps = g.check_for_loopcarried_dep(kernel, timeout=-1, flag_dependencies=flag_deps)
    else:
        g = DG(kernel, parser, lcd=True, flag_dependencies=flag_deps)
    deps = g.get_loopcarried_dependencies()
    got = {}
    dup = False
    for key, d in deps.items():
        members = tuple(sorted(x.line_number - 1 for x, _ in d["dependencies"]))
        if members in got:
            dup = True
        got[members] = d["latency"]
        # per-member latencies must add up to the reported latency and the key must name the members
        if sum(l for _, l in d["dependencies"]) != d["latency"]:
            dup = True
        if key != "-".join(str(m + 1) for m in members):
            dup = True
        if d["root"].line_number - 1 != members[0]:
            dup = True
    return g, deps, got, dup


def _reference(instrs, weights):
    n = len(instrs)
    raw = ref_raw(instrs + instrs)
    e2 = set((i, j) for i, j, _ in raw)
    return ref_lcd(n, e2, lambda u, v: weights[u % n])


def _summary_ok(isa, kernel, g, ref):
    """LCD figure of the machine-readable summary = max cycle latency (0 if none)."""
    fe = _frontend(isa)
    for k in kernel:
        k.port_pressure = [0.0]
    d = fe.full_analysis_dict(kernel, g)
    want = max(ref.values()) if ref else 0
    return d["Summary"]["LCD"] == want


def _struct_concrete(isa, nreads, pat, narrow_reads, summary, workers=0):
    """Everything is concrete here (pattern decided by the solver): one native run of the real code."""
    n = len(nreads)
    k = 0
    kernel, instrs = [], []
    weights = [1 << i for i in range(n)]
    for i in range(n):
        rc = pat[k:k + nreads[i]]
        wc = pat[k + nreads[i]]
        k += nreads[i] + 1
        src = [class_reg(isa, c, narrow=narrow_reads) for c in rc]
        kernel.append(iform(i + 1, src=src, dst=[class_reg(isa, wc)], lat=weights[i]))
        instrs.append((set(rc), {wc}))
    g, deps, got, bad = _observe(isa, kernel, workers=workers)
    ref = _reference(instrs, weights)
    ok = (not bad) and got == ref
    if ok and summary:
        ok = _summary_ok(isa, kernel, g, ref)
    return ok, len(ref) > 0, {"pattern": list(pat), "cycles": [list(m) for m in ref], "workers": workers}


def _struct(isa, nreads, flat, narrow, summary=True, prefix=4):
    """flat = symbolic register slots in program order (reads then write per instruction)."""
    pre = canon(flat[:prefix])
    if not in_shard_index(pattern_index(pre)):
        return True
    pat = canon(flat)
    nar = True if narrow else False
    ok, nontrivial, sample = native(_struct_concrete, isa, list(nreads), list(pat), nar, summary)
    return verdict(ok, nontrivial=nontrivial, sample=sample)


def lcd3_x86(r0: int, w0: int, r1: int, w1: int, r2: int, w2: int, narrow: bool) -> bool:
    """
    post: _
    """
    if skip(locals()):
        return True
    return _struct("x86", [1, 1, 1], [r0, w0, r1, w1, r2, w2], narrow)


def lcd3_workers(r0: int, w0: int, r1: int, w1: int, r2: int, w2: int, workers: int) -> bool:
    """
    pre: 1 <= workers <= 5
    post: _
    """
    # the same family through the multi-process search with 1-5 stub workers (also counts that do not
    # divide the kernel length and more workers than instructions)
    if skip(locals()):
        return True
    from vp.symx import pick
    pre = canon([r0, w0, r1, w1])
    if not in_shard_index(pattern_index(pre)):
        return True
    pat = canon([r0, w0, r1, w1, r2, w2])
    ok, nontrivial, sample = native(_struct_concrete, "x86", [1, 1, 1], list(pat), False, False, pick(workers - 1, 5) + 1)
    return verdict(ok, nontrivial=nontrivial, sample=sample)


def lcd3_a64(r0: int, w0: int, r1: int, w1: int, r2: int, w2: int, narrow: bool) -> bool:
    """
    post: _
    """
    if skip(locals()):
        return True
    return _struct("aarch64", [1, 1, 1], [r0, w0, r1, w1, r2, w2], narrow)


def lcd2_two_reads(a0: int, b0: int, w0: int, a1: int, b1: int, w1: int) -> bool:
    """
    post: _
    """
    if skip(locals()):
        return True
    return _struct("x86", [2, 2], [a0, b0, w0, a1, b1, w1], False)


def lcd4_x86(r0: int, w0: int, r1: int, w1: int, r2: int, w2: int, r3: int, w3: int) -> bool:
    """
    post: _
    """
    if skip(locals()):
        return True
    return _struct("x86", [1, 1, 1, 1], [r0, w0, r1, w1, r2, w2, r3, w3], False, prefix=5)


def lcd5_x86(r0: int, w0: int, r1: int, w1: int, r2: int, w2: int, r3: int, w3: int, r4: int, w4: int) -> bool:
    """
    post: _
    """
    if skip(locals()):
        return True
    return _struct("x86", [1, 1, 1, 1, 1], [r0, w0, r1, w1, r2, w2, r3, w3, r4, w4], False, summary=False, prefix=6)


def lcd3_traced(r0: int, w0: int, r1: int, w1: int, r2: int, w2: int) -> bool:
    """
    post: _
    """
    # same as lcd3_x86 but the real code runs under the tracer (no native segment): validates
    # that the native shortcut does not change verdicts
    if skip(locals()):
        return True
    flat = [r0, w0, r1, w1, r2, w2]
    pre = canon(flat[:4])
    if not in_shard_index(pattern_index(pre)):
        return True
    pat = canon(flat)
    ok, nontrivial, sample = _struct_concrete("x86", [1, 1, 1], list(pat), False, False)
    return verdict(ok, nontrivial=nontrivial, sample=sample)


# ---- (ii) numbers symbolic on fixed shapes ----------------------------------------------
# shape = list of (reads, write) over register classes
SHAPES = [
    [((0,), 0)],                                   # self loop
    [((1,), 0), ((0,), 1)],                        # 2-ring
    [((0, 1), 0), ((0,), 1)],                      # self loop + ring sharing node 0
    [((2,), 0), ((0,), 1), ((1,), 2)],             # 3-ring
    [((0, 2), 0), ((0,), 1), ((1,), 2)],           # several cycles through instruction 0
    [((1,), 0), ((0,), 1), ((2,), 2)],             # ring + independent self loop
    [((0,), 1), ((1,), 2), ((3,), 3)],             # chain without cycle + self loop
    [((0,), 1), ((1,), 2), ((2,), 3)],             # no cycle at all
    [((0, 1), 0), ((0, 1), 1)],                    # two mutually feeding accumulators: cycles {0}, {1}, {0,1}
    [((0, 1), 0), ((0, 1), 1), ((1, 2), 2)],       # ... plus a third accumulator fed by the second
]


def _numbers(isa, shape_idx, lats):
    shape = SHAPES[shape_idx]
    n = len(shape)
    kernel, instrs = [], []
    for i, (rs, w) in enumerate(shape):
        kernel.append(iform(i + 1, src=[class_reg(isa, c) for c in rs], dst=[class_reg(isa, w)], lat=lats[i]))
        instrs.append((set(rs), {w}))
    g, deps, got, bad = _observe(isa, kernel)
    ref = _reference(instrs, lats[:n])
    ok = (not bad) and set(got) == set(ref) and all(got[m] == ref[m] for m in ref)
    if ok:
        ok = _summary_ok(isa, kernel, g, ref)
    return verdict(ok, nontrivial=len(ref) > 0, sample=lambda: {"shape": shape_idx, "lat": lats[:n], "cycles": {str(k): v for k, v in ref.items()}})


def lcd_numbers_int(shape: int, l0: int, l1: int, l2: int) -> bool:
    """
    pre: 0 <= shape < len(SHAPES) and 0 <= l0 <= 100 and 0 <= l1 <= 100 and 0 <= l2 <= 100
    post: _
    """
    lo, hi = shard(len(SHAPES))
    if not (lo <= shape < hi):
        return True
    if skip(locals()):
        return True
    from vp.symx import pick
    return _numbers("x86", pick(shape, len(SHAPES)), [l0, l1, l2])


def lcd_numbers_float(shape: int, l0: float, l1: float, l2: float) -> bool:
    """
    pre: 0 <= shape < len(SHAPES) and 0 <= l0 <= 100 and 0 <= l1 <= 100 and 0 <= l2 <= 100
    post: _
    """
    lo, hi = shard(len(SHAPES))
    if not (lo <= shape < hi):
        return True
    if skip(locals()):
        return True
    from vp.symx import pick
    return _numbers("aarch64", pick(shape, len(SHAPES)), [l0, l1, l2])


def lcd_numbers_float2(shape: int, l0: float, l1: float) -> bool:
    """
    pre: 0 <= shape < len(SHAPES) and 0 <= l0 <= 100 and 0 <= l1 <= 100
    post: _
    """
    lo, hi = shard(len(SHAPES))
    if not (lo <= shape < hi):
        return True
    if skip(locals()):
        return True
    from vp.symx import pick
    return _numbers("aarch64", pick(shape, len(SHAPES)), [l0, l1, 3.0])


# ---- LCD column of the combined report (concrete latencies incl. 0) ------------------------------

def _column(text, n):
    """{line index: LCD cell text} parsed from combined_view"""
    out = {}
    for ln in text.split("\n"):
        parts = ln.split("|")
        if len(parts) >= 5 and parts[0].strip().isdigit():
            out[int(parts[0]) - 1] = parts[-2].strip()
    return out


LATS3 = [0.0, 1.0, 3.0]


def _column_concrete(shape_idx, li):
    isa = "x86"
    shape = SHAPES[shape_idx]
    n = len(shape)
    lats = [LATS3[i] for i in li][:n]
    kernel, instrs = [], []
    for i, (rs, w) in enumerate(shape):
        kernel.append(iform(i + 1, src=[class_reg(isa, c) for c in rs], dst=[class_reg(isa, w)], lat=lats[i]))
        instrs.append((set(rs), {w}))
    g, deps, got, bad = _observe(isa, kernel)
    ref = _reference(instrs, lats)
    fe = _frontend(isa)
    for k in kernel:
        k.port_pressure = [0.0]
    col = _column(fe.combined_view(kernel, g.get_critical_path(), deps), n)
    marked = set(i for i, v in col.items() if v != "")
    ok = (not bad) and set(got) == set(ref)
    if not ref:
        ok = ok and not marked
    else:
        best = max(ref.values())
        cands = [set(m) for m, l in ref.items() if l == best]
        ok = ok and any(marked == c for c in cands)
        # each marked cell shows the latency of the edge leaving that member
        ok = ok and all(float(col[i]) == lats[i] for i in marked)
    return ok, len(ref) > 0, {"shape": shape_idx, "lat": lats, "marked": sorted(marked)}


def lcd_column(shape: int, a: int, b: int, c: int) -> bool:
    """
    pre: 0 <= shape < len(SHAPES) and 0 <= a < 3 and 0 <= b < 3 and 0 <= c < 3
    post: _
    """
    if skip(locals()):
        return True
    from vp.symx import pick
    ok, nt, sample = native(_column_concrete, pick(shape, len(SHAPES)), [pick(a, 3), pick(b, 3), pick(c, 3)])
    return verdict(ok, nontrivial=nt, sample=sample)


# ---- shipped example / test kernels: reported LCDs vs independent cycle enumeration -------------------

def _example_lcd_concrete(ex):
    import copy as _copy
    from harness._pipeline import analyze, example_lines, EXAMPLES
    lines = example_lines(ex)
    res = analyze("\n".join(lines) + "\n", EXAMPLES[ex][1], whole=True, timeout=-1)
    g, kernel = res["dg"], res["kernel"]
    # doubled kernel exactly as a second loop iteration (fresh copies, shifted line numbers), edges from the real create_DG
    offset = max(1000, max(k.line_number for k in kernel))
    doubled = list(kernel)
    for k in kernel:
        c = _copy.copy(k)
        c.line_number += offset
        doubled.append(c)
    dg2 = g.create_DG(doubled)
    succ = {}
    for u, v, w in dg2.edges(data="latency"):
        succ.setdefault(u, []).append((v, w))
    ref = {}

    def dfs(node, target, path, lat):
        if node == target:
            members = tuple(sorted(set((int(n) if n < offset else int(n - offset)) for n in path[:-1] if int(n) == n)))
            key = tuple(sorted(((n if n < offset else n - offset), w) for n, w in lat))
            ref[key] = (members, sum(w for _, w in lat))
            return
        for v, w in succ.get(node, []):
            if v <= target and v not in path:
                dfs(v, target, path + [v], lat + [(node, w)])
    for k in kernel:
        dfs(k.line_number, k.line_number + offset, [k.line_number], [])
    want = sorted((m, l) for m, l in ref.values())
    got = sorted((tuple(sorted(x.line_number for x, _ in d["dependencies"])), d["latency"]) for d in g.get_loopcarried_dependencies().values())
    ok = len(got) == len(want) and all(a[0] == b[0] and abs(a[1] - b[1]) < 1e-9 for a, b in zip(got, want))
    ok = ok and abs(res["summary"]["lcd"] - (max(l for _, l in want) if want else 0.0)) < 1e-9
    return ok, len(want) > 0, {"kernel": EXAMPLES[ex][0], "arch": EXAMPLES[ex][1], "lcds": len(want), "max": res["summary"]["lcd"]}


def examples(ex: int) -> bool:
    """
    pre: 0 <= ex < 16
    post: _
    """
    if skip(locals()):
        return True
    from vp.symx import pick
    lo, hi = shard(16)
    if not (lo <= ex < hi):
        return True
    ok, nt, sample = native(_example_lcd_concrete, pick(ex, 16))
    return verdict(ok, nontrivial=nt, sample=sample)


# ---- flags --------------------------------------------------------------------------------

def lcd_flags(fw0: bool, fr0: bool, fw1: bool, fr1: bool, fw2: bool, fr2: bool, flag_deps: bool, samename: bool) -> bool:
    """
    post: _
    """
    if skip(locals()):
        return True
    isa = "x86"
    fw, fr = [fw0, fw1, fw2], [fr0, fr1, fr2]
    kernel, instrs = [], []
    weights = [1, 2, 4]
    for i in range(3):
        src = [class_reg(isa, 3 + i)]
        dst = [class_reg(isa, 6 + i)]
        reads, writes = {3 + i}, {6 + i}
        # flag written by 0 is CF; others read/write CF or (if not samename) ZF
        fname = "CF" if (samename or i == 0) else "ZF"
        if fr[i]:
            src.append(FlagOperand(name=fname, source=True))
            if flag_deps:
                reads.add(fname)
        if fw[i]:
            dst.append(FlagOperand(name=fname, destination=True))
            if flag_deps:
                writes.add(fname)
        kernel.append(iform(i + 1, src=src, dst=dst, lat=weights[i]))
        instrs.append((reads, writes))
    parser = NativeParser(PX)
    g = DG(kernel, parser, lcd=True, flag_dependencies=bool(flag_deps))
    deps = g.get_loopcarried_dependencies()
    got = {tuple(sorted(x.line_number - 1 for x, _ in d["dependencies"])): d["latency"] for d in deps.values()}
    ref = _reference(instrs, weights)
    return verdict(got == ref and len(got) == len(deps), nontrivial=len(ref) > 0, sample=lambda: {"fw": fw, "fr": fr, "flag_deps": flag_deps, "cycles": [list(m) for m in ref]})


CELLS = {
    "lcd3_x86": {"fn": lcd3_x86, "bound": "n=3, one read + one write per instruction, all register coincidence patterns (Bell(6)=203) x {reads via 64-bit, 32-bit alias}; real code native per pattern",
                 "budget": {"quick": 170, "thorough": 600}, "shards": 5},
    "lcd3_workers": {"fn": lcd3_workers, "bound": "n=3, all 203 patterns through the multi-process search (threshold lowered, stub processes) with 1-5 workers", "budget": {"quick": 170, "thorough": 600}, "shards": 15},
    "lcd4_x86": {"fn": lcd4_x86, "bound": "n=4, one read + one write per instruction, all Bell(8)=4140 patterns; real code native per pattern", "budget": {"quick": 170, "thorough": 900}, "shards": 13},
    "lcd5_x86": {"fn": lcd5_x86, "tiers": ("thorough",), "bound": "n=5, one read + one write per instruction, all Bell(10)=115975 patterns; real code native per pattern", "budget": {"thorough": 3000}, "shards": 203},
    "lcd3_traced": {"fn": lcd3_traced, "tiers": ("thorough",), "bound": "n=3 as lcd3_x86 but the real code runs under the tracer", "budget": {"thorough": 900}, "shards": 15},
    "lcd3_a64": {"fn": lcd3_a64, "tiers": ("thorough",), "bound": "as lcd3_x86 on AArch64 (x/w aliases)", "budget": {"thorough": 600}, "shards": 5},
    "lcd2_two_reads": {"fn": lcd2_two_reads, "bound": "n=2, two reads + one write per instruction, all patterns", "budget": {"thorough": 600}, "shards": 5},
    "lcd_numbers_float2": {"fn": lcd_numbers_float2, "tiers": ("quick",), "bound": "10 fixed cycle shapes, latencies of instructions 0 and 1 real-valued symbolic in [0,100], third = 3.0",
                           "budget": {"quick": 170}, "shards": 10},
    "lcd_numbers_int": {"fn": lcd_numbers_int, "tiers": ("thorough",), "bound": "10 fixed cycle shapes (self loop, rings, shared nodes, several cycles through one instruction, no cycle), all int latencies 0..100",
                        "budget": {"thorough": 1200}, "shards": 10},
    "lcd_numbers_float": {"fn": lcd_numbers_float, "tiers": ("thorough",), "bound": "same shapes, real-valued latencies (CrossHair real-based floats)", "budget": {"thorough": 900}, "shards": 8},
    "lcd_column": {"fn": lcd_column, "bound": "LCD column of the combined report on the 10 cycle shapes x latencies from {0,1,3} per instruction (zero-latency edges included)", "budget": {"quick": 150, "thorough": 300}},
    "examples": {"fn": examples, "bound": "16 shipped example/test kernels on zen1/zen2/tx2: reported LCDs (members, latency, count) and summary vs an independent DFS over the doubled kernel's real dependency graph", "budget": {"quick": 170, "thorough": 300}, "shards": 4},
    "lcd_flags": {"fn": lcd_flags, "bound": "n=3, flag read/write bits per instruction, flag_dependencies on/off, same/different flag name", "budget": {"quick": 170, "thorough": 600}},
}

META = {
    "functions": ["KernelDG.check_for_loopcarried_dep (sequential branch; multi-process branch with stub processes in lcd3_workers)", "KernelDG.create_DG", "KernelDG.find_depending", "KernelDG.is_read", "KernelDG.is_written",
                  "KernelDG.get_loopcarried_dependencies", "Frontend.full_analysis_dict (Summary.LCD)", "networkx.all_simple_paths (traced)"],
    "bounds": "n<=3 quick / n<=4 thorough; registers by equality pattern (covers every register assignment with the same coincidences); latencies 2^i (structure cells) or symbolic (number cells)",
    "outside": "n>=50 parallel branch (C16), timeouts (C19), memory dependencies (C06), shipped models",
    "assumptions": ["alias predicate executed natively on concrete names chosen per pattern (NativeParser); aliasing itself is decided in C12",
                    "real-based floats in lcd_numbers_float: the claim is the algebra of the sums, not IEEE rounding"],
}
