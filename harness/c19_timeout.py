"""C19 - LCD timeout yields sound partial results and leaves no workers behind.

The real parallel branch of KernelDG.check_for_loopcarried_dep (poll loop, deadline, kill, join,
copy of the partial list, post-processing) runs under the tracer with a nondeterministic
environment (harness/_procstub.py): time.time() returns non-decreasing instants built from symbolic
increments, sleep() advances by a symbolic amount, every worker has a symbolic completion instant
and, if killed, has published a symbolic prefix of its chunks; os.kill and join are recorded.
"""
from osaca.frontend import Frontend

from vp.api import verdict, skip, shard
from vp.symx import pick, NoTracing
from vp.synth import DG, NativeParser, PX, iform, class_reg
from harness._procstub import Env, Clock, installed

# kernel: two rings and a self loop over 4 instructions
SPEC = [((1,), 0), ((0,), 1), ((2, 0), 2), ((3,), 3)]      # last instruction is a self loop (found only from its own root)


def _build():
    return [iform(i + 1, src=[class_reg("x86", c) for c in rs], dst=[class_reg("x86", w)], lat=1 << i) for i, (rs, w) in enumerate(SPEC)]


_REF = {}


def _reference():
    if "r" not in _REF:
        with NoTracing():
            g = DG(_build(), NativeParser(PX), lcd=True)
            _REF["r"] = {k: d["latency"] for k, d in g.get_loopcarried_dependencies().items()}
            _REF["edges"] = sorted(g.dg.edges(data="latency"))
    return _REF["r"], _REF["edges"]


def _run(ncores, timeout, incs, sleeps, finish, prefix, term_ignored=False, slack=4):
    ref, ref_edges = _reference()
    kernel = _build()
    g = DG(kernel, NativeParser(PX))
    g.INSTRUCTION_THRESHOLD = len(kernel)      # exactly at the threshold: the multi-process branch (with its timeout) applies
    clock = Clock(incs, sleeps)
    env = Env(ncores, clock=clock, finish=finish, prefix=prefix)
    env.term_ignored = term_ignored
    deadline_slack = max([0] + list(finish))
    with installed(env):
        deps = g.check_for_loopcarried_dep(kernel, timeout=timeout)
    got = {k: d["latency"] for k, d in deps.items()}
    killed_alive = [i for i, alive in env.killed if alive]
    killed_dead = [i for i, alive in env.killed if not alive]
    cut_short = len(killed_alive) > 0
    ok = all(k in ref and ref[k] == v for k, v in got.items())                 # sound partial result
    ok = ok and (g.timed_out == cut_short)                                        # warning iff cut short
    ok = ok and (("timed out" in Frontend._user_warnings_footer(None, g.timed_out)) == g.timed_out)
    if not cut_short:
        ok = ok and got == ref                                                    # complete
    ok = ok and not killed_dead                                                   # kill only live workers
    ok = ok and sorted(env.joined) == list(range(len(env.procs)))                 # each joined exactly once
    ok = ok and len(env.procs) == ncores                                          # the timed, multi-process search was used
    if timeout == -1:
        ok = ok and not env.killed and clock.nsleep == 0
    else:
        ok = ok and clock.nsleep <= timeout + 1                                   # bounded polling
        # returns within the timeout plus a bounded overhead (stub clock: one poll interval and one clock
        # step past the deadline; joining a live worker would advance the clock to its completion instant)
        ok = ok and clock.now - incs[0] <= timeout + slack
    with NoTracing():
        same_dg = sorted(g.dg.edges(data="latency")) == ref_edges                 # CP inputs untouched
    ok = ok and same_dg
    # no worker left running: whoever was alive at the deadline has been killed, not waited for
    if timeout != -1 and any(kind == "terminate-ignored" for kind, _ in env.log):
        ok = False
    return ok, cut_short


def sched2(timeout: int, d0: int, d1: int, d2: int, d3: int, s0: int, s1: int, s2: int, f0: int, f1: int, p0: int, p1: int, term_ignored: bool) -> bool:
    """
    pre: -1 <= timeout <= 2
    pre: 0 <= d0 <= 2 and 0 <= d1 <= 2 and 0 <= d2 <= 2 and 0 <= d3 <= 2
    pre: 1 <= s0 <= 2 and 1 <= s1 <= 2 and 1 <= s2 <= 2
    pre: 0 <= f0 <= 7 and 0 <= f1 <= 7 and 0 <= p0 <= 2 and 0 <= p1 <= 2
    post: _
    """
    if skip(locals()):
        return True
    lo, hi = shard(36)
    if not (lo <= (timeout + 1) * 9 + p0 * 3 + p1 < hi):
        return True
    t = pick(timeout + 1, 4) - 1
    pre = [pick(p0, 3), pick(p1, 3)]
    ok, cut = _run(2, t, [d0, d1, d2, d3], [s0, s1, s2], [f0, f1], pre, term_ignored)
    return verdict(ok, nontrivial=cut, sample=lambda: {"timeout": t, "time_increments": [d0, d1, d2, d3], "sleeps": [s0, s1, s2], "finish": [f0, f1], "prefix": pre, "sigterm_ignored": term_ignored})


def sched3(timeout: int, d0: int, d1: int, d2: int, s0: int, s1: int, f0: int, f1: int, f2: int, p: int) -> bool:
    """
    pre: 0 <= timeout <= 3
    pre: 0 <= d0 <= 3 and 0 <= d1 <= 3 and 0 <= d2 <= 3 and 1 <= s0 <= 3 and 1 <= s1 <= 3
    pre: 0 <= f0 <= 9 and 0 <= f1 <= 9 and 0 <= f2 <= 9 and 0 <= p < 8
    post: _
    """
    if skip(locals()):
        return True
    lo, hi = shard(32)
    if not (lo <= timeout * 8 + p < hi):
        return True
    t = pick(timeout, 4)
    pp = pick(p, 8)
    pre = [pp & 1, (pp >> 1) & 1, (pp >> 2) & 1]
    ok, cut = _run(3, t, [d0, d1, d2], [s0, s1], [f0, f1, f2], pre, slack=6)
    return verdict(ok, nontrivial=cut, sample=lambda: {"timeout": t, "time_increments": [d0, d1, d2], "sleeps": [s0, s1], "finish": [f0, f1, f2], "prefix": pre})


def untimed(ncores: int, generous: bool, f0: int, f1: int) -> bool:
    """
    pre: 1 <= ncores <= 6 and 0 <= f0 <= 3 and 0 <= f1 <= 3
    post: _
    """
    # timeout -1, or a generous timeout with all workers finishing early: complete result, no warning,
    # for every worker count (incl. more workers than instructions and counts not dividing the length)
    if skip(locals()):
        return True
    n = pick(ncores - 1, 6) + 1
    fin = [f0, f1] + [0] * (n - 2)
    ok, cut = _run(n, 1000 if generous else -1, [0, 1, 1, 1], [1, 1, 1], fin[:n], [0] * n)
    return verdict(ok and not cut, nontrivial=True, sample=lambda: {"workers": n, "timeout": 1000 if generous else -1, "finish": fin[:n]})


CELLS = {
    "sched2": {"fn": sched2, "bound": "2 workers (2 root instructions each); timeout in {-1,0,1,2}; 4 clock increments 0..2, 3 sleep amounts 1..2, completion instants 0..7, published prefix 0..2 chunks per killed worker: all symbolic; workers may ignore SIGTERM (only SIGKILL is reliable)",
               "budget": {"quick": 170, "thorough": 900}, "shards": 36},
    "untimed": {"fn": untimed, "bound": "1-6 workers on the 4-instruction kernel, timeout -1 or generous with symbolic early completion instants: complete result, no warning, nobody killed", "budget": {"quick": 150, "thorough": 300}},
    "sched3": {"fn": sched3, "tiers": ("thorough",), "bound": "3 workers; timeout 0..3; increments 0..3, sleeps 1..3, completion instants 0..9, prefix 0/1 chunk", "budget": {"thorough": 1500}, "shards": 32},
}

META = {
    "functions": ["KernelDG.check_for_loopcarried_dep (parallel branch incl. poll loop, deadline, kill/join, post-processing)", "KernelDG._extend_path (run by the stub workers)", "Frontend._user_warnings_footer"],
    "bounds": "<= 3 workers, <= 4 polls, integer stub clock; 4-instruction kernel with threshold lowered",
    "outside": "wall-clock bounds, SIGKILL semantics, Manager-proxy behaviour when its client is killed mid-extend (assumed atomic)",
    "stubs": ["time.time/time.sleep, os.kill, multiprocessing.Manager/Process/cpu_count rebound in osaca.semantics.kernel_dg (harness/_procstub.py)"],
    "assumptions": ["'cut short' = at least one worker was killed while still alive", "'within the timeout plus a small bounded overhead' = stub clock at return <= first reading + timeout + largest possible poll interval + largest possible clock step of the cell (2+2 / 3+3)", "a killed worker has published an arbitrary prefix of its per-instruction chunks; join of an un-killed worker waits for its completion"],
}
