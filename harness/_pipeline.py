"""Native end-to-end helpers on the real code: load shipped models from the working tree's YAML
(pickle caches bypassed), run the analysis steps of osaca.inspect, or the real CLI entry."""
import argparse
import copy
import io
import os

import osaca.osaca as cli
import osaca.utils as utils
from osaca.frontend import Frontend
from osaca.parser import ParserAArch64, ParserX86ATT
from osaca.semantics import ArchSemantics, KernelDG, MachineModel, reduce_to_section, INSTR_FLAGS

_MODELS = {}
_SEMS = {}


class no_cache:
    """Within this context MachineModel neither reads nor writes pickle caches, and the
    process-wide runtime cache is emptied on entry and restored on exit."""

    def __enter__(self):
        self.gc, self.wc = MachineModel._get_cached, MachineModel._write_in_cache
        self.rc = dict(MachineModel._runtime_cache)
        MachineModel._runtime_cache.clear()
        MachineModel._get_cached = lambda s, p: False
        MachineModel._write_in_cache = lambda s, p: None
        return self

    def __exit__(self, *a):
        MachineModel._get_cached, MachineModel._write_in_cache = self.gc, self.wc
        MachineModel._runtime_cache.clear()
        MachineModel._runtime_cache.update(self.rc)
        return False


def model(arch):
    if arch not in _MODELS:
        with no_cache():
            m = MachineModel(arch=arch)
            s = ArchSemantics(m)
        _MODELS[arch] = m
        _SEMS[arch] = s
    return _MODELS[arch], _SEMS[arch]


_PRISTINE = {}


def fresh_env(arch):
    """A (model, semantics) pair as a fresh process would build it: loaded once per check process
    from the working tree's YAML and never used for analysis; every call returns an independent
    deep copy of that pristine pair."""
    if arch not in _PRISTINE:
        with no_cache():
            m = MachineModel(arch=arch)
            s = ArchSemantics(m)
        _PRISTINE[arch] = (m, s)
    m0, s0 = _PRISTINE[arch]
    # the parser is a process-wide singleton (pyparsing grammars must not be deep-copied): shared
    memo = {id(s0._parser): s0._parser}
    m, s = copy.deepcopy((m0, s0), memo)
    return m, s


def parser_for(isa):
    return ParserX86ATT() if isa == "x86" else ParserAArch64()


def analyze(text, arch, lines=None, fixed=False, flag_deps=False, timeout=10, parsed=None, whole=False, env=None):
    """The analysis steps of osaca.inspect on a shipped model; returns a plain dict keyed by
    instruction text (line numbers dropped) so that runs on differently laid-out files compare."""
    m, sem = env if env is not None else model(arch)
    isa = m.get_ISA()
    p = parser_for(isa)
    parsed = p.parse_file(text) if parsed is None else parsed
    if lines is not None:
        rng = cli.get_line_range(lines)
        kernel = [l for l in parsed if l.line_number in rng]
    elif whole:
        kernel = list(parsed)
    else:
        kernel = reduce_to_section(parsed, isa)
    sem.add_semantics(kernel)
    if not fixed:
        sem.assign_optimal_throughput(kernel)
        sem.assign_optimal_throughput(kernel)
    g = KernelDG(kernel, p, m, sem, timeout, flag_deps)
    fe = Frontend.__new__(Frontend)
    fe._filename = "k.s"
    fe._arch = arch
    fe._machine_model = m
    d = fe.full_analysis_dict(kernel, g)
    text_report = fe.full_analysis(kernel, g, ignore_unknown=True)
    instrs = [k for k in kernel if k.mnemonic is not None]
    ident = {id(k): i for i, k in enumerate(instrs)}
    lineno_to_idx = {k.line_number: ident[id(k)] for k in instrs}
    edges = sorted((lineno_to_idx[int(u)], lineno_to_idx[int(v)], float(w)) for u, v, w in g.dg.edges(data="latency")
                   if int(u) in lineno_to_idx and int(v) in lineno_to_idx and int(u) == u)
    lcds = sorted((tuple(sorted(lineno_to_idx[x.line_number] for x, _ in dep["dependencies"])), float(dep["latency"]))
                  for dep in g.get_loopcarried_dependencies().values())
    return {
        "instr": [(k.line.strip(), float(k.throughput), float(k.latency), [round(x, 6) for x in k.port_pressure], sorted(k.flags)) for k in instrs],
        "edges": edges, "lcd": lcds,
        "summary": {"ports": d["Summary"]["PortPressure"], "cp": float(d["Summary"]["CriticalPath"]), "lcd": float(d["Summary"]["LCD"])},
        "n_lines": len(kernel), "timed_out": g.timed_out, "report": text_report, "dict": d, "kernel": kernel, "dg": g,
    }


def run_cli(path, extra):
    """The real CLI entry (argument parser + check_arguments + run); returns stdout text."""
    parser = cli.create_parser()
    out = io.StringIO()
    args = parser.parse_args(list(extra) + [path])
    cli.check_arguments(args, parser)
    cli.run(args, output_file=out)
    return out.getvalue()


# ---- shipped example / test kernels (marked sections), used by the *_examples cells -----------------

EXAMPLES = [
    ("examples/sum_reduction/sum_reduction.s.zen.gcc.s", "zen1"), ("examples/sum_reduction/sum_reduction.s.tx2.gcc.s", "tx2"),
    ("tests/test_files/kernel_x86_memdep.s", "zen2"), ("tests/test_files/kernel_aarch64_memdep.s", "tx2"),
    ("examples/update/update.s.zen.gcc.s", "zen1"), ("examples/update/update.s.tx2.gcc.s", "tx2"),
    ("examples/triad/triad.s.zen.gcc.s", "zen1"), ("examples/gs/gs.s.tx2.clang.s", "tx2"), ("examples/gs/gs.s.tx2.gcc.s", "tx2"),
    ("tests/test_files/kernel_x86.s", "zen2"), ("tests/test_files/kernel_aarch64.s", "tx2"), ("examples/copy/copy.s.zen.gcc.s", "zen1"),
    ("examples/daxpy/daxpy.s.zen.gcc.s", "zen1"), ("examples/j2d/j2d.s.zen.gcc.s", "zen1"), ("examples/striad/striad.s.zen.gcc.s", "zen1"),
    ("examples/add/add.s.tx2.gcc.s", "tx2"),
]
_KLINES = {}


def example_lines(i):
    """text lines of the marked section of example i (parsed and reduced by the real code)"""
    if i not in _KLINES:
        rel, arch = EXAMPLES[i]
        root = os.path.dirname(os.path.dirname(os.path.abspath(cli.__file__)))
        m, _ = model(arch)
        isa = m.get_ISA()
        parsed = parser_for(isa).parse_file(open(os.path.join(root, rel)).read())
        _KLINES[i] = [l.line for l in reduce_to_section(parsed, isa)]
    return _KLINES[i]
