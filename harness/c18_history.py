"""C18 - analyses are independent of what was analysed before in the same process.

Reduced to (i) a frame condition - analysing any kernel leaves every process-wide object (model
tables, ISA tables, default-argument objects of InstructionForm) equal to its snapshot - and
(ii) pairwise history independence: report(K2 after K1) == report(K2 on freshly loaded models),
for K1, K2 and the --fixed option chosen by the solver from a family of kernel kinds (register
forms, memory-composed load, store, read-modify-write, AArch64 post-index, unknown mnemonic, zero
idiom, labels/comments/directives), on shipped models with the real parsers and ISA data.
Each path is one native run; the solver enumerates the histories.
"""
import re

from osaca.parser.instruction_form import InstructionForm

from vp.api import verdict, skip, shard, kf_state
from vp.symx import pick, native
from harness._pipeline import analyze, fresh_env

KINDS = [
    ("x86", "zen1", "vaddpd %xmm1, %xmm2, %xmm3\nvmulpd %xmm3, %xmm4, %xmm5\n", "register forms"),
    ("x86", "zen1", "vaddpd (%rax), %xmm2, %xmm3\nvmulpd 8(%rax,%rcx,8), %xmm3, %xmm5\n", "memory-composed loads"),
    ("x86", "zen1", "vmovapd %xmm1, (%rdi)\nvmovapd %ymm2, 32(%rdi)\n", "stores"),
    ("x86", "zen1", "addq $1, (%rax)\naddq %rbx, 8(%rax)\n", "read-modify-write"),
    ("x86", "zen1", "nosuchinstr %xmm1, %xmm2\nvaddpd %xmm1, %xmm2, %xmm3\n", "unknown mnemonic"),
    ("x86", "zen1", "vxorpd %xmm0, %xmm0, %xmm0\nvaddpd %xmm0, %xmm1, %xmm1\n", "zero idiom"),
    ("x86", "zen1", ".L1:\n# comment\n.p2align 4\nincq %rax\ncmpq %rbx, %rax\njne .L1\n", "labels, comments, directives"),
    ("aarch64", "tx2", "fadd v1.2d, v2.2d, v3.2d\nfmul v4.2d, v1.2d, v1.2d\n", "register forms"),
    ("aarch64", "tx2", "ldr q1, [x1], #16\nldr q2, [x1, #32]!\nfadd v3.2d, v1.2d, v2.2d\n", "post/pre-indexed loads"),
    ("aarch64", "tx2", "str q1, [x2, x3]\nstr d1, [x2], #8\n", "stores"),
    ("aarch64", "tx2", "ldr d0, [x1, #8]\nfmadd d1, d0, d0, d1\nnosuch x1, x2\n", "load + unknown"),
    ("x86", "zen1", ".L2:\nvmovsd 8(%rdi), %xmm0\nvmulsd %xmm0, %xmm1, %xmm0\nvmovsd %xmm0, 8(%rdi)\naddq $1, %rcx\ncmpq %rdx, %rcx\njne .L2\n", "store reloaded in the next iteration"),
    ("x86", "zen1", "movq (%rsi,%rcx,8), %rdi\naddq $16, %rax\nvmovsd %xmm0, (%rax)\n", "writes address registers"),
]
_BASE = {}


def _strip(report):
    return "\n".join(l for l in report.split("\n") if not l.startswith("Timestamp:"))


def _key(r):
    return (r["instr"], r["edges"], r["lcd"], r["summary"]["ports"], r["summary"]["cp"], r["summary"]["lcd"], _strip(r["report"]))


def _baseline(k, fixed):
    if (k, fixed) not in _BASE:
        isa, arch, text, _ = KINDS[k]
        _BASE[(k, fixed)] = _key(analyze(text, arch, whole=True, fixed=fixed, env=fresh_env(arch)))
    return _BASE[(k, fixed)]


def _process_state():
    """Process-wide mutable state of the osaca package besides the model objects: default-argument
    objects of every function/method, class-level dict/list/set attributes, module-level ones."""
    import inspect
    import sys
    from collections import namedtuple
    MI = namedtuple("MI", "name")
    out = []
    for modname in sorted(k for k in list(sys.modules) if k == "osaca" or k.startswith("osaca.")):     # every loaded osaca module
        mod = sys.modules[modname]
        mi = MI(modname)
        if mod is None or modname.startswith("osaca.data"):
            continue
        for name, val in list(vars(mod).items()):
            if name.startswith("__"):
                continue
            if isinstance(val, (dict, list, set)):
                out.append((mi.name, name, repr(val)))
            elif inspect.isfunction(val) and val.__module__ == mod.__name__ and val.__defaults__:
                out.append((mi.name, name, repr(val.__defaults__)))
            elif inspect.isclass(val) and val.__module__ == mod.__name__:
                for an, a in vars(val).items():
                    f = a.__func__ if isinstance(a, (staticmethod, classmethod)) else a
                    if inspect.isfunction(f):
                        if f.__defaults__:
                            out.append((mi.name, val.__name__ + "." + an, repr(f.__defaults__)))
                    elif isinstance(a, (dict, list, set)) and an != "_runtime_cache":
                        out.append((mi.name, val.__name__ + "." + an, repr(a)))
    return out


def _snapshot(env):
    m, sem = env
    return (repr(m._data), repr(sem._isa_model._data), repr(_process_state()))


_ENVS = {}      # arch -> (env, pristine snapshot): reused across paths only while snapshot-equal to pristine


def _env_for(arch):
    if arch in _ENVS:
        env, snap = _ENVS[arch]
        if _snapshot(env) == snap:
            return env            # state equal to a freshly loaded one (frame condition held so far)
    env = fresh_env(arch)
    _ENVS[arch] = (env, _snapshot(env))
    return env


def _pair_concrete(k1, f1, k2, f2):
    base2 = _baseline(k2, f2)
    envs = {}
    for k in (k1, k2):
        arch = KINDS[k][1]
        if arch not in envs:
            envs[arch] = _env_for(arch)         # one long-lived model per architecture, as in one process
    analyze(KINDS[k1][2], KINDS[k1][1], whole=True, fixed=f1, env=envs[KINDS[k1][1]])
    got = _key(analyze(KINDS[k2][2], KINDS[k2][1], whole=True, fixed=f2, env=envs[KINDS[k2][1]]))
    return got == base2, True, {"first": KINDS[k1][3] + " (" + KINDS[k1][1] + ")", "then": KINDS[k2][3] + " (" + KINDS[k2][1] + ")", "fixed": [f1, f2]}


def _pair_ctor_concrete(k1, k2):
    """Both analyses build their MachineModel / ArchSemantics through the REAL constructors in one
    process (process-wide runtime cache live; only the on-disk pickle caches are bypassed)."""
    from osaca.semantics import MachineModel, ArchSemantics
    base2 = _baseline(k2, False)
    gc, wc = MachineModel._get_cached, MachineModel._write_in_cache
    saved = dict(MachineModel._runtime_cache)
    MachineModel._get_cached = lambda s, p: False
    MachineModel._write_in_cache = lambda s, p: None
    MachineModel._runtime_cache.clear()
    try:
        out = None
        for k in (k1, k2):
            m = MachineModel(arch=KINDS[k][1])
            sem = ArchSemantics(m)
            out = _key(analyze(KINDS[k][2], KINDS[k][1], whole=True, fixed=False, env=(m, sem)))
    finally:
        MachineModel._get_cached, MachineModel._write_in_cache = gc, wc
        MachineModel._runtime_cache.clear()
        MachineModel._runtime_cache.update(saved)
    return out == base2, True, {"first": KINDS[k1][3] + " (" + KINDS[k1][1] + ")", "then": KINDS[k2][3] + " (" + KINDS[k2][1] + ")", "via": "real constructors"}


CTOR_KINDS = [0, 3, 7, 8]      # two x86 and two AArch64 kinds (YAML loading through the constructors is slow)


def pairs_ctor(k1: int, k2: int) -> bool:
    """
    pre: 0 <= k1 < 4 and 0 <= k2 < 4
    post: _
    """
    lo, hi = shard(16)
    if not (lo <= k1 * 4 + k2 < hi):
        return True
    ok, nt, sample = native(_pair_ctor_concrete, CTOR_KINDS[pick(k1, 4)], CTOR_KINDS[pick(k2, 4)])
    return verdict(ok, nontrivial=nt, sample=sample)


def _is_rmw(k):
    return KINDS[k][3] == "read-modify-write"


def pairs(k1: int, k2: int, f1: bool, f2: bool) -> bool:
    """
    pre: 0 <= k1 < len(KINDS) and 0 <= k2 < len(KINDS)
    post: _
    """
    lo, hi = shard(len(KINDS))
    if not (lo <= k1 < hi):
        return True
    a, b = pick(k1, len(KINDS)), pick(k2, len(KINDS))
    st = kf_state({"first_is_rmw": _is_rmw(a), "same_arch": KINDS[a][1] == KINDS[b][1]})
    if st == "skip":
        return True
    if st == "relaxed":
        return True          # known finding covers exactly these histories; all others are decided
    ok, nt, sample = native(_pair_concrete, a, True if f1 else False, b, True if f2 else False)
    return verdict(ok, nontrivial=nt, sample=sample)


def _frame_concrete(k, fixed):
    isa, arch, text, _ = KINDS[k]
    env = _env_for(arch)
    before = _snapshot(env)
    analyze(text, arch, whole=True, fixed=fixed, env=env)
    after = _snapshot(env)
    return before == after, True, {"kernel": KINDS[k][3], "arch": arch, "fixed": fixed}


def frame(k: int, fixed: bool) -> bool:
    """
    pre: 0 <= k < len(KINDS)
    post: _
    """
    kk = pick(k, len(KINDS))
    st = kf_state({"first_is_rmw": _is_rmw(kk), "same_arch": True})
    if st != "full":
        return True
    ok, nt, sample = native(_frame_concrete, kk, True if fixed else False)
    return verdict(ok, nontrivial=nt, sample=sample)


CELLS = {
    "pairs": {"fn": pairs, "bound": "all ordered pairs over %d kernel kinds (zen1, tx2; mixing ISAs) x --fixed on/off for each: second report vs report on freshly loaded models" % len(KINDS),
              "budget": {"quick": 170, "thorough": 600}, "shards": 11},
    "pairs_ctor": {"fn": pairs_ctor, "bound": "all ordered pairs over 2 x86 + 2 AArch64 kinds with both analyses constructing MachineModel/ArchSemantics through the real constructors in one process (runtime cache live, mixing ISAs)", "budget": {"quick": 170, "thorough": 600}, "shards": 16},
    "frame": {"fn": frame, "bound": "frame condition: model tables, ISA tables and InstructionForm default arguments unchanged by analysing each kernel kind", "budget": {"quick": 170, "thorough": 300}},
}

META = {
    "functions": ["ArchSemantics.add_semantics / assign_src_dst / assign_tp_lt", "assign_optimal_throughput", "KernelDG", "Frontend.full_analysis / full_analysis_dict", "ParserX86ATT / ParserAArch64 singletons",
                  "MachineModel loader (YAML from the working tree, caches bypassed)"],
    "bounds": "histories of length 2 over 11 kernel kinds on zen1/tx2 (length-k independence follows from the frame condition by induction)",
    "outside": "subprocess comparison; other shipped models (same code paths, other data)",
    "assumptions": ["'fresh process' = freshly loaded MachineModel/ArchSemantics objects in this process; parser singletons and class-level defaults are shared and covered by the frame condition",
                    "each path is a native run; the solver enumerates the histories"],
}
