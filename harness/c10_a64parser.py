"""C10 - AArch64 parser recovers every line and operand exactly as written  (weakest fit, as C09)."""
from osaca.parser import ParserAArch64

from harness import _asm
from harness._parsercells import make

P = ParserAArch64()
REGS, IMMS, MEMS = _asm.a64_registers(), _asm.a64_immediates(), _asm.a64_memory()
# AArch64 operand order: memory operand last -> pairs are (register, anything)
VARIANTS = REGS + IMMS + MEMS
_pick = lambda txt: [v for v in VARIANTS if v[0] == txt][0]
LAYOUT_SET = [_pick("x0"), _pick("v7.2d"), _pick("#16"), _pick("ne"), _pick("loop"), _pick("[x1, x2, lsl #3]")]
LONE = [v for v in IMMS if v[1][0] == "id"] + MEMS[:6] + REGS[:4]
FILE_LINES = [("", "blank"), ("   ", "blank"), ("\t", "blank"), ("// a comment", "comment"), ("  // indented comment", "comment"), (".L5:", "label"), (".L6:   // with comment", "label"),
              (".p2align 4,,10", "directive"), ("\t.byte 213,3,32,31 // marker", "directive"), ("\tfmla\tv1.2d, v2.2d, v3.2d", "instruction"), ("ldr x1, [x2, x3, lsl #3] // load", "instruction"), ("ret", "instruction"),
              ("  ret", "instruction"), ("ret  ", "instruction"), ("// a comment  ", "comment")]      # same content, other white space

CELLS = make("aarch64", P, VARIANTS, LONE, _asm.A64_LAYOUTS, _asm.render_a64, _asm.line_ok, "//", ["ldr", "fmla", "b.ne"], FILE_LINES, layout_set=LAYOUT_SET)


# register lists and ranges are expanded to their members
def _list_concrete(first, count, rng, shape, idx, lay, which=1):
    from harness._asm import line_ok, A64_LAYOUTS, render_a64
    lanes, sh = [("2", "d"), ("4", "s"), ("16", "b")][shape]
    regs = ["v%d.%s%s" % (first + k, lanes, sh) for k in range(count)]
    if idx:
        body = "{" + ", ".join("v%d.%s" % (first + k, sh) for k in range(count)) + "}[%d]" % which
        exp = [("reg", "v", str(first + k), None, sh, str(which), None) for k in range(count)]
    elif rng and count > 1:
        body = "{%s - %s}" % (regs[0], regs[-1])
        exp = [("reg", "v", str(first + k), lanes, sh, None, None) for k in range(count)]
    else:
        body = "{" + ", ".join(regs) + "}"
        exp = [("reg", "v", str(first + k), lanes, sh, None, None) for k in range(count)]
    line = render_a64("ld1", [body, "[x0]"], A64_LAYOUTS[lay])
    f = P.parse_line(line, 1)
    return line_ok(f, "ld1", exp + [("mem", ("x", "0"), None, None, 1, False, None)], A64_LAYOUTS[lay][3]), True, {"line": line}


def register_lists(first: int, count: int, rng: bool, shape: int, idx: bool, lay: int, which: int) -> bool:
    """
    pre: 0 <= first <= 27 and 1 <= count <= 4 and 0 <= shape < 3 and 0 <= lay < 5 and 0 <= which <= 3
    post: _
    """
    from vp.api import verdict, skip
    from vp.symx import pick, native
    if skip(locals()):
        return True
    if idx and rng:
        return True
    if not idx and which != 1:
        return True
    if which == 2:
        return True
    if first != 0 and first != 9 and first != 27:
        return True
    ok, nt, sample = native(_list_concrete, pick(first, 28), pick(count - 1, 4) + 1, True if rng else False, pick(shape, 3), True if idx else False, pick(lay, 5), pick(which, 4))
    return verdict(ok, nontrivial=nt, sample=sample)


CELLS["register_lists"] = {"fn": register_lists, "bound": "register lists {..} and ranges {a - b} of 1-4 members starting at v0/v9/v27, 3 arrangements, element index form with index 0, 1 and 3, all layouts", "budget": {"quick": 150, "thorough": 300}}

META = {
    "functions": ["ParserAArch64.parse_line", "parse_instruction", "process_operand", "process_memory_address", "process_immediate", "process_register_operand", "resolve_range_list", "process_register_list",
                  "process_sp_register", "BaseParser.parse_file", "the pyparsing grammar (native)"],
    "bounds": "the rendered finite AST family described per cell; each path one concrete native parse",
    "outside": "all lines outside the rendered family: shifted/extended register operands outside memory references, relocations, prefetch operations, arbitrary numerals and whitespace runs",
    "assumptions": ["grammar witnesses: the solver contributes the exhaustive case split only (weakest form of the technique, reported as such)"],
}
