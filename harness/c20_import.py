"""C20 - benchmark import snaps measurements and emits every imported form.

snap_*   : db_interface._validate_measurement with the measurement a symbolic IEEE double
           (CrossHair PreciseIeeeSymbolicFloat -> z3 FP theory): soundness and completeness of
           the 5% windows for throughput (1/n, n=1..10) and latency (nearest integer).
decode_* : _create_db_operand_x86 / _aarch64 with the operand code a symbolic string.
ibench / asmbench : block structure symbolic (line kinds, corruption position, truncation);
           each path one native run of the real parsers, then MachineModel.set_instruction_entry
           on a synthetic model.
"""
import io
import warnings

from osaca import db_interface as dbi
from osaca.parser.instruction_form import InstructionForm

from vp.api import verdict, skip, shard, kf_state
from vp.symx import pick, native
from vp.synth import mk_model

EPS = 1e-9


# ---- snapping (IEEE precise) -------------------------------------------------------------------

def snap_tp_sound(m: float) -> bool:
    """
    pre: 0.0 < m < 2.0
    post: _
    """
    if skip(locals()):
        return True
    r = dbi._validate_measurement(m, "tp")
    if r is None:
        return verdict(True, nontrivial=False)
    ok = False
    for n in range(1, 11):
        if r == round(1 / n, 5) and (0.95 / n) * (1 - EPS) <= m <= (1.05 / n) * (1 + EPS):
            ok = True
    return verdict(ok, nontrivial=True, sample=lambda: {"m": m, "snapped": r})


def snap_tp_complete(m: float, n: int) -> bool:
    """
    pre: 1 <= n <= 10
    pre: 0.0 < m < 2.0
    post: _
    """
    if skip(locals()):
        return True
    k = pick(n - 1, 10) + 1
    if not ((0.95 / k) * (1 + EPS) <= m <= (1.05 / k) * (1 - EPS)):
        return True
    r = dbi._validate_measurement(m, "tp")
    return verdict(r == round(1 / k, 5), nontrivial=True, sample=lambda: {"m": m, "n": k, "snapped": r})


def snap_tp_reject(m: float) -> bool:
    """
    pre: 0.0 < m < 2.0
    post: _
    """
    # outside every (slightly widened) window the measurement must be recorded as missing
    if skip(locals()):
        return True
    for k in range(1, 11):
        if (0.95 / k) * (1 - EPS) <= m <= (1.05 / k) * (1 + EPS):
            return True
    r = dbi._validate_measurement(m, "tp")
    return verdict(r is None, nontrivial=True, sample=lambda: {"m": m, "snapped": r})


# The "lt" branch (math.floor / math.ceil / round on a symbolic double) is not decided by CrossHair's
# IEEE float model within any budget tried (16 shards x 1800 s: all inconclusive, path tree not
# exhausted), so it is covered by the E2 encoding only (e2_lt_* cells below).


# ---- E2: the same function translated from its AST into z3 floating-point terms -----------------

def _e2_setup(mode):
    import z3
    from vp.fpsym import Interp, F64
    m = z3.FP("m", F64)
    it = Interp(dbi._validate_measurement)
    rets = it.run([m, mode])
    return z3, m, rets


def _e2_validate_translation(mode):
    """Serval-style validation: push concrete inputs through the real function and the encoding."""
    import z3
    from vp.fpsym import Interp, F64
    it = Interp(dbi._validate_measurement)
    pts = [4.013, 8.010, 0.251, 0.501, 0.334, 1.0, 1.049, 1.05, 1.051, 2.5, 0.95, 0.0951, 0.105, 10.5, 20.6, 63.9, 0.7, 0.3333, 0.1, 0.09, 1e-3, 1.9]
    for x in pts:
        real = dbi._validate_measurement(x, mode)
        rets = it.run([z3.FPVal(x, F64), mode])
        got = "none"
        for pc, r in rets:
            if z3.is_true(z3.simplify(pc)):
                if r is None:
                    got = None
                elif isinstance(r, float):
                    got = r
                else:
                    import struct
                    bv = z3.simplify(z3.fpToIEEEBV(r)).as_long()
                    got = struct.unpack("<d", struct.pack("<Q", bv))[0]
                break
        if got != real:
            return "translation mismatch at %r: real %r, encoding %r" % (x, real, got)
    return None


def _fpc(z3, x):
    from vp.fpsym import F64
    return z3.FPVal(x, F64)


def _e2_run(mode, what, budget, deep=False):
    import time
    from vp.fpsym import solve, Unsupported, RNE
    t0 = time.time()
    try:
        err = _e2_validate_translation(mode)
        if err:
            return {"status": "error", "error": err}
        z3, m, rets = _e2_setup(mode)
    except Unsupported as e:
        return {"status": "inconclusive", "message": "E2 translator does not support the current source: %s" % e}
    hi = 2.0 if mode == "tp" else 64.0
    dom = [z3.fpGT(m, _fpc(z3, 0.0)), z3.fpLT(m, _fpc(z3, hi))]
    if deep:
        return _e2_deep(z3, m, rets, what, budget, t0)
    queries, tsolve = 0, 0.0
    mul = lambda a, b: z3.fpMul(RNE, a, b)
    goals = []   # (description, constraints)
    for pc, r in rets:
        if what == "sound" and r is not None:
            if mode == "lt":
                good = z3.And(z3.fpEQ(z3.fpRoundToIntegral(RNE, r), r),
                              z3.fpLEQ(z3.fpAbs(z3.fpSub(RNE, r, m)), _fpc(z3, 0.5)),
                              z3.fpLEQ(mul(mul(_fpc(z3, 0.95), r), _fpc(z3, 1 - EPS)), m),
                              z3.fpLEQ(m, mul(mul(_fpc(z3, 1.05), r), _fpc(z3, 1 + EPS))))
            else:
                alts = []
                for n in range(1, 11):
                    same = (r == round(1 / n, 5)) if isinstance(r, float) else z3.fpEQ(r, _fpc(z3, round(1 / n, 5)))
                    if same is False:
                        continue
                    w = z3.And(z3.fpLEQ(_fpc(z3, (0.95 / n) * (1 - EPS)), m), z3.fpLEQ(m, _fpc(z3, (1.05 / n) * (1 + EPS))))
                    alts.append(w if same is True else z3.And(same, w))
                good = z3.Or(*alts) if alts else z3.BoolVal(False)
            goals.append(("returned value not justified", dom + [pc, z3.Not(good)]))
        if what == "complete" and r is None:
            rng = range(1, 11) if mode == "tp" else range(1, 64)
            for n in rng:
                if mode == "tp":
                    w = z3.And(z3.fpLEQ(_fpc(z3, (0.95 / n) * (1 + EPS)), m), z3.fpLEQ(m, _fpc(z3, (1.05 / n) * (1 - EPS))))
                else:
                    w = z3.And(z3.fpLEQ(_fpc(z3, 0.95 * n * (1 + EPS)), m), z3.fpLEQ(m, _fpc(z3, 1.05 * n * (1 - EPS))))
                goals.append(("measurement within 5%% of n=%d rejected" % n, dom + [pc, w]))
        if what == "complete" and r is not None and mode == "tp":
            for n in range(1, 11):
                w = z3.And(z3.fpLEQ(_fpc(z3, (0.95 / n) * (1 + EPS)), m), z3.fpLEQ(m, _fpc(z3, (1.05 / n) * (1 - EPS))))
                same = (r == round(1 / n, 5)) if isinstance(r, float) else z3.fpEQ(r, _fpc(z3, round(1 / n, 5)))
                if same is True:
                    continue
                goals.append(("window of n=%d snapped to another value" % n, dom + [pc, w] + ([] if same is False else [z3.Not(same)])))
    per = max(5.0, budget / max(1, len(goals)))
    for desc, cons in goals:
        if time.time() - t0 > budget:
            return {"status": "inconclusive", "message": "budget exhausted after %d queries" % queries, "paths": queries}
        r, val, dt = solve(cons, per, m)
        queries += 1
        tsolve += dt
        if r == "sat":
            return {"status": "counterexample", "args": [val], "kwargs": {}, "message": "%s: m=%r" % (desc, val), "paths": queries}
        if r != "unsat":
            return {"status": "inconclusive", "message": "solver answered %s on: %s" % (r, desc), "paths": queries}
    from vp import api
    api.STATS["reached"] += queries
    api.STATS["nontrivial"] += queries
    api.SAMPLES.append({"engine": "E2 z3 QF_FP", "mode": mode, "obligation": what, "queries": queries, "paths_of_function": len(rets)})
    return {"status": "confirmed", "paths": queries}


DEEP_TOP = 13      # sound: 0 < m < 2**13, one query per binade;  complete: every integral n <= 2**52 (symbolic)


def _e2_deep(z3, m, rets, what, budget, t0):
    import time
    from vp.fpsym import solve, RNE, F64
    from vp import api
    mul = lambda a, b: z3.fpMul(RNE, a, b)
    goals = []
    if what == "sound":
        doms = [("0 < m < 2**-4", [z3.fpGT(m, _fpc(z3, 0.0)), z3.fpLT(m, _fpc(z3, 2.0 ** -4))])]
        doms += [("2**%d <= m < 2**%d" % (k, k + 1), [z3.fpGEQ(m, _fpc(z3, 2.0 ** k)), z3.fpLT(m, _fpc(z3, 2.0 ** (k + 1)))]) for k in range(-4, DEEP_TOP)]
        for name, dom in doms:
            for pc, r in rets:
                if r is None:
                    continue
                good = z3.And(z3.fpEQ(z3.fpRoundToIntegral(RNE, r), r),
                              z3.fpLEQ(z3.fpAbs(z3.fpSub(RNE, r, m)), _fpc(z3, 0.5)),
                              z3.fpLEQ(mul(mul(_fpc(z3, 0.95), r), _fpc(z3, 1 - EPS)), m),
                              z3.fpLEQ(m, mul(mul(_fpc(z3, 1.05), r), _fpc(z3, 1 + EPS))))
                goals.append(("returned value not justified, " + name, dom + [pc, z3.Not(good)]))
    else:
        n = z3.FP("n", F64)
        for pc, r in rets:
            if r is not None:
                continue
            w = z3.And(z3.fpEQ(z3.fpRoundToIntegral(RNE, n), n), z3.fpGEQ(n, _fpc(z3, 1.0)), z3.fpLEQ(n, _fpc(z3, 2.0 ** 52)),
                       z3.fpLEQ(mul(mul(_fpc(z3, 0.95), n), _fpc(z3, 1 + EPS)), m), z3.fpLEQ(m, mul(mul(_fpc(z3, 1.05), n), _fpc(z3, 1 - EPS))))
            goals.append(("measurement within 5% of an integer n <= 2**52 rejected", [z3.fpGT(m, _fpc(z3, 0.0)), pc, w]))
    queries = 0
    for desc, cons in goals:
        left = budget - (time.time() - t0)
        if left < 5:
            return {"status": "inconclusive", "message": "budget exhausted after %d queries" % queries, "paths": queries}
        r, val, dt = solve(cons, min(left, 400.0), m)
        queries += 1
        if r == "sat":
            return {"status": "counterexample", "args": [val], "kwargs": {}, "message": "%s: m=%r" % (desc, val), "paths": queries}
        if r != "unsat":
            return {"status": "inconclusive", "message": "solver answered %s on: %s" % (r, desc), "paths": queries}
    api.STATS["reached"] += queries
    api.STATS["nontrivial"] += queries
    api.SAMPLES.append({"engine": "E2 z3 QF_FP", "mode": "lt", "obligation": what + " (deep)", "queries": queries, "paths_of_function": len(rets)})
    return {"status": "confirmed", "paths": queries}


def _replay_complete_deep(m):
    import math
    r = dbi._validate_measurement(m, "lt")
    for n in (math.floor(m), math.ceil(m), math.ceil(m / (1.05 * (1 - EPS))), math.floor(m / (0.95 * (1 + EPS)))):
        if 1 <= n <= 2 ** 52 and 0.95 * n * (1 + EPS) <= m <= 1.05 * n * (1 - EPS):
            return r is not None
    return True


def _replay_sound(mode):
    def f(m):
        r = dbi._validate_measurement(m, mode)
        if r is None:
            return True
        if mode == "lt":
            return r == float(int(r)) and abs(r - m) <= 0.5 and 0.95 * r * (1 - EPS) <= m <= 1.05 * r * (1 + EPS)
        return any(r == round(1 / n, 5) and (0.95 / n) * (1 - EPS) <= m <= (1.05 / n) * (1 + EPS) for n in range(1, 11))
    return f


def _replay_complete(mode):
    def f(m):
        r = dbi._validate_measurement(m, mode)
        if mode == "tp":
            for n in range(1, 11):
                if (0.95 / n) * (1 + EPS) <= m <= (1.05 / n) * (1 - EPS):
                    return r == round(1 / n, 5)
            return True
        for n in range(1, 64):
            if 0.95 * n * (1 + EPS) <= m <= 1.05 * n * (1 - EPS):
                return r is not None
        return True
    return f


# ---- operand-code decoder --------------------------------------------------------------------

def _x86_expected(code):
    if code == "r":
        return {"class": "register", "name": "gpr"}
    if code in ("x", "y", "z"):
        return {"class": "register", "name": code + "mm"}
    if code == "i":
        return {"class": "immediate", "imd": "int"}
    return {"class": "memory", "base": "gpr" if "b" in code[1:] else None, "offset": "imd" if "o" in code[1:] else None,
            "index": "gpr" if "i" in code[1:] else None, "scale": 8 if "s" in code[1:] else 1}


def decode_x86(code: str) -> bool:
    """
    pre: 1 <= len(code) <= 5
    post: _
    """
    if skip(locals()):
        return True
    # documented codes only: r | x | y | z | i | m followed by distinct letters of b,o,i,s
    if len(code) == 1:
        if code not in ("r", "x", "y", "z", "i", "m"):
            return True
    else:
        if code[0] != "m":
            return True
        seen = ""
        for ch in code[1:]:
            if ch not in ("b", "o", "i", "s") or ch in seen:
                return True
            seen += ch
    got = dbi._create_db_operand(code, "x86")
    return verdict(got == _x86_expected(code), nontrivial=True, sample=lambda: {"code": code})


def _a64_expected(code):
    if code == "i":
        return {"class": "immediate", "imd": "int"}
    if code in ("w", "x", "b", "h", "s", "d", "q"):
        return {"class": "register", "prefix": code}
    if code[0] == "v":
        return {"class": "register", "prefix": "v", "shape": code[1] if len(code) > 1 else "d"}
    r = code[1:]
    return {"class": "memory", "base": "x" if "b" in r else None, "offset": "imd" if "o" in r else None, "index": "gpr" if "i" in r else None,
            "scale": 8 if "s" in r else 1, "pre_indexed": "r" in r, "post_indexed": "p" in r}


def decode_a64(code: str) -> bool:
    """
    pre: 1 <= len(code) <= 4
    post: _
    """
    if skip(locals()):
        return True
    if len(code) == 1:
        if code not in ("w", "x", "b", "h", "s", "d", "q", "v", "i", "m"):
            return True
    elif code[0] == "v":
        if len(code) != 2 or code[1] not in ("b", "h", "s", "d"):
            return True
    else:
        if code[0] != "m":
            return True
        seen = ""
        for ch in code[1:]:
            if ch not in ("b", "o", "i", "s", "r", "p") or ch in seen:
                return True
            seen += ch
    got = dbi._create_db_operand(code, "aarch64")
    return verdict(got == _a64_expected(code), nontrivial=True, sample=lambda: {"code": code})


def decode_mixed(code: str, x86_first: bool) -> bool:
    """
    pre: 1 <= len(code) <= 4
    post: _
    """
    # codes that are documented for BOTH ISAs (x, i, m + letters of b,o,i,s) decoded for one ISA, then for
    # the other, then for the first again in one process (an import for x86 followed by one for AArch64)
    if skip(locals()):
        return True
    if len(code) == 1:
        if code not in ("x", "i", "m"):
            return True
    else:
        if code[0] != "m":
            return True
        seen = ""
        for ch in code[1:]:
            if ch not in ("b", "o", "i", "s") or ch in seen:
                return True
            seen += ch
    order = ["x86", "aarch64", "x86"] if x86_first else ["aarch64", "x86", "aarch64"]
    ok = True
    for isa in order:
        got = dbi._create_db_operand(code, isa)
        ok = ok and got == (_x86_expected(code) if isa == "x86" else _a64_expected(code))
    return verdict(ok, nontrivial=True, sample=lambda: {"code": code, "order": order})


# ---- ibench / asmbench structure ---------------------------------------------------------------

FORMS = ["FA-r_r", "fb-x_x_x", "fc-mboi_r", "FA-r_i", "fb-y_y_y", "fd-r_r"]       # note: FA twice with different operands (upper case as in the DBs)
TPS = [("0.251", 0.25), ("0.501", 0.5), ("1.049", 1.0), ("0.7", None)]
LTS = [("4.013", 4.0), ("8.010", 8.0), ("2.5", None), ("1.0", 1.0)]


def _import(model, entries):
    for k in entries:
        model.set_instruction_entry(entries[k])


def _emitted(model):
    out = []
    for f in model._data["instruction_forms"]:
        out.append((f.mnemonic, [dict(o) if isinstance(o, dict) else o for o in f.operands], f.throughput, f.latency))
    return out


def _ibench_concrete(order, header, blank, vals, same_name):
    """order: permutation index of the TP/LT lines of 2-3 forms; vals: per form (tp idx, lt idx)"""
    # same_name 0: three different mnemonics; 1: the upper-case mnemonic FA twice (known finding); 2: the
    # lower-case mnemonic fb twice with different operand codes and the same operand count
    forms = ([FORMS[0], FORMS[3] if same_name else FORMS[1], FORMS[2]] if same_name != 2 else [FORMS[1], FORMS[4], FORMS[5]])[:len(vals)]
    lines = []
    if header:
        lines.append("Using frequency 2.50GHz.\n")
    recs = []
    for f, (ti, li) in zip(forms, vals):
        recs.append("%s-TP: %s (clock cycles)    [DEBUG - result: 1.0]\n" % (f, TPS[ti][0]))
        recs.append("%s-LT:    %s (clock cycles)    [DEBUG - result: 1.0]\n" % (f, LTS[li][0]))
    # order: 0 = as is, 1 = all TP lines first then LT lines, 2 = reversed
    if order == 1:
        recs = recs[0::2] + recs[1::2]
    elif order == 2:
        recs = recs[::-1]
    lines += recs
    with warnings.catch_warnings():
        warnings.simplefilter("ignore")
        entries = dbi._get_ibench_output(lines, "x86")
    ok = len(entries) == len(forms)
    for f, (ti, li) in zip(forms, vals):
        e = entries.get(f)
        if e is None:
            ok = False
            continue
        mn, ops = f.split("-")[0], f.split("-")[1].split("_")
        ok = ok and e.mnemonic == mn and e.operands == [_x86_expected(o) for o in ops]
        ok = ok and e.throughput == TPS[ti][1] and e.latency == LTS[li][1]
    # emission: every imported form appears in the model with its data
    model = mk_model("x86", ports=["0"])
    _import(model, entries)
    em = _emitted(model)
    emitted_ok = True
    for f, (ti, li) in zip(forms, vals):
        mn, ops = f.split("-")[0], [_x86_expected(o) for o in f.split("-")[1].split("_")]
        if (mn, ops, TPS[ti][1], LTS[li][1]) not in em:
            emitted_ok = False
    return ok, emitted_ok, {"lines": [l.strip() for l in lines]}


def ibench(nforms: int, order: int, header: bool, t0: int, l0: int, t1: int, l1: int, t2: int, l2: int, same_name: int) -> bool:
    """
    pre: 1 <= nforms <= 3 and 0 <= order <= 2 and 0 <= same_name <= 2
    pre: 0 <= t0 < 4 and 0 <= l0 < 4 and 0 <= t1 < 4 and 0 <= l1 < 4 and 0 <= t2 < 4 and 0 <= l2 < 4
    post: _
    """
    lo, hi = shard(16)
    if not (lo <= t0 * 4 + l0 < hi):
        return True
    # exclusions are decided on the symbolic values (one path each), before anything is enumerated
    if nforms < 3 and (t2 != 0 or l2 != 0):
        return True
    if nforms < 2 and (t1 != 0 or l1 != 0):
        return True
    if nforms == 3 and (t1 == 1 or t1 == 2 or l1 == 1 or l1 == 2 or t2 == 1 or t2 == 2 or l2 == 1 or l2 == 2):
        return True   # three-form files: later forms restricted to {in-tolerance, out-of-tolerance} values
    if same_name != 0 and nforms < 2:
        return True
    n = pick(nforms - 1, 3) + 1
    vals = [(pick(t0, 4), pick(l0, 4)), (pick(t1, 4), pick(l1, 4)), (pick(t2, 4), pick(l2, 4))]
    sn = pick(same_name, 3)
    st = kf_state({"same_name": sn == 1})
    if st == "skip":
        return True
    ok, emitted_ok, sample = native(_ibench_concrete, pick(order, 3), True if header else False, False, vals[:n], sn)
    if st == "relaxed":
        emitted_ok = True   # known finding: same mnemonic + same operand count overwrite each other on insertion
    return verdict(ok and emitted_ok, nontrivial=True, sample=sample)


def _asmbench_concrete(nblocks, corrupt_block, truncated, vals):
    forms = [FORMS[0], FORMS[1], FORMS[2]][:nblocks]
    lines = []
    for b, (f, (ti, li)) in enumerate(zip(forms, vals)):
        lines += ["%s\n" % f, "Latency: %s cy\n" % LTS[li][0], "Throughput: %s cy\n" % TPS[ti][0]]
        lines.append("garbage\n" if b == corrupt_block else "\n")
    if truncated:
        lines = lines[:-1]      # file ends right after the last Throughput line
    err = io.StringIO()
    import contextlib
    with warnings.catch_warnings():
        warnings.simplefilter("ignore")
        with contextlib.redirect_stderr(err):
            entries = dbi._get_asmbench_output(lines, "x86")
    good = nblocks if corrupt_block >= nblocks else corrupt_block
    if truncated and good == nblocks:
        good = nblocks - 1      # the incomplete last block is malformed: import stops there
    ok = len(entries) == good
    for f, (ti, li) in list(zip(forms, vals))[:good]:
        e = entries.get(f)
        if e is None:
            ok = False
            continue
        ok = ok and e.throughput == TPS[ti][1] and e.latency == LTS[li][1]
        ok = ok and e.operands == [_x86_expected(o) for o in f.split("-")[1].split("_")]
    return ok, good > 0, {"lines": [l.strip() for l in lines], "imported": good}


def asmbench(nblocks: int, corrupt: int, truncated: bool, t0: int, l0: int, t1: int, l1: int, t2: int, l2: int) -> bool:
    """
    pre: 1 <= nblocks <= 3 and 0 <= corrupt <= 3
    pre: 0 <= t0 < 4 and 0 <= l0 < 4 and 0 <= t1 < 4 and 0 <= l1 < 4 and 0 <= t2 < 4 and 0 <= l2 < 4
    post: _
    """
    if skip(locals()):
        return True
    lo, hi = shard(16)
    if not (lo <= t0 * 4 + l0 < hi):
        return True
    if corrupt > nblocks:
        return True
    if nblocks < 3 and (t2 != 0 or l2 != 0):
        return True
    if nblocks < 2 and (t1 != 0 or l1 != 0):
        return True
    if t1 == 1 or t1 == 2 or l1 == 1 or l1 == 2 or t2 == 1 or t2 == 2 or l2 == 1 or l2 == 2:
        return True   # later blocks: {first in-tolerance value, out-of-tolerance value} only
    n = pick(nblocks - 1, 3) + 1
    c = pick(corrupt, 4)
    vals = [(pick(t0, 4), pick(l0, 4)), (pick(t1, 4), pick(l1, 4)), (pick(t2, 4), pick(l2, 4))]
    ok, nt, sample = native(_asmbench_concrete, n, c if c < n else 99, True if truncated else False, vals[:n])
    return verdict(ok, nontrivial=nt, sample=sample)


CELLS = {
    "snap_tp_sound": {"fn": snap_tp_sound, "ieee": True, "bound": "all IEEE doubles 0 < m < 2: a snapped value is round(1/n,5) for an n in 1..10 whose 5% window contains m", "budget": {"quick": 170, "thorough": 900}},
    "snap_tp_complete": {"fn": snap_tp_complete, "ieee": True, "bound": "all doubles inside a 5% window of 1/n, n = 1..10, are snapped to round(1/n,5)", "budget": {"quick": 170, "thorough": 900}},
    "snap_tp_reject": {"fn": snap_tp_reject, "ieee": True, "bound": "all doubles 0 < m < 2 outside every window are recorded as missing", "budget": {"quick": 170, "thorough": 900}},
    "e2_lt_sound": {"kind": "smt", "fn": lambda b: _e2_run("lt", "sound", b), "replay": _replay_sound("lt"), "bound": "E2: AST -> z3 QF_FP; all doubles 0 < m < 64; returned latency is integral, within 0.5 of m and m within 5% of it", "budget": {"quick": 170, "thorough": 900}},
    "e2_lt_complete": {"kind": "smt", "fn": lambda b: _e2_run("lt", "complete", b), "replay": _replay_complete("lt"), "bound": "E2: all doubles within 5% of an integer n = 1..63 are snapped (63 queries)", "budget": {"quick": 170, "thorough": 900}},
    "e2_lt_sound_deep": {"kind": "smt", "tiers": ("thorough",), "fn": lambda b: _e2_run("lt", "sound", b, deep=True), "replay": _replay_sound("lt"), "bound": "E2: all doubles 0 < m < 8192, one QF_FP query per binade (2**-4 .. 2**13) and function path", "budget": {"thorough": 1500}},
    "e2_lt_complete_deep": {"kind": "smt", "tiers": ("thorough",), "fn": lambda b: _e2_run("lt", "complete", b, deep=True), "replay": _replay_complete_deep, "bound": "E2: n is a symbolic integral double 1 <= n <= 2**52: every double within 5% of n is snapped", "budget": {"thorough": 900}},
    "e2_tp_sound": {"kind": "smt", "fn": lambda b: _e2_run("tp", "sound", b), "replay": _replay_sound("tp"), "bound": "E2 cross-check of snap_tp_sound on a second encoding", "budget": {"quick": 170, "thorough": 900}},
    "e2_tp_complete": {"kind": "smt", "fn": lambda b: _e2_run("tp", "complete", b), "replay": _replay_complete("tp"), "bound": "E2 cross-check of snap_tp_complete", "budget": {"quick": 170, "thorough": 900}},
    "decode_x86": {"fn": decode_x86, "bound": "operand code = symbolic string, len <= 5, restricted to the documented x86 codes (r, x, y, z, i, m + distinct letters of b,o,i,s in any order)", "budget": {"quick": 170, "thorough": 600}},
    "decode_mixed": {"fn": decode_mixed, "bound": "every operand code documented for both ISAs (all strings up to length 4) decoded for one ISA, the other, and the first again within one process", "budget": {"quick": 170, "thorough": 600}},
    "decode_a64": {"fn": decode_a64, "bound": "symbolic string, len <= 4, documented AArch64 codes (w,x,b,h,s,d,q, v[bhsd], i, m + distinct letters of b,o,i,s,r,p)", "budget": {"quick": 170, "thorough": 900}},
    "ibench": {"fn": ibench, "bound": "1-3 forms, TP/LT lines in 3 orders, with/without frequency header, measurements from {in tolerance, out of tolerance} per line, two forms sharing a mnemonic", "budget": {"quick": 170, "thorough": 600}, "shards": 16},
    "asmbench": {"fn": asmbench, "bound": "1-3 blocks, corrupted 4th line at any block, truncated last block, measurements in/out of tolerance", "budget": {"quick": 170, "thorough": 600}, "shards": 16},
}

META = {
    "functions": ["db_interface._validate_measurement", "_create_db_operand", "_create_db_operand_x86", "_create_db_operand_aarch64", "_get_ibench_output", "_get_asmbench_output",
                  "MachineModel.set_instruction_entry", "MachineModel.set_instruction", "MachineModel.get_instruction (dict operands)"],
    "bounds": "snapping: every IEEE double in the stated range (z3 floating-point theory); decoder: all strings up to length 5/4 inside the documented code language; files of <= 3 forms/blocks",
    "outside": "dump() through ruamel.yaml and re-parsing the emitted stream; operand codes outside the documented language (either a ValueError or any decode is accepted); negative or non-finite measurements",
    "assumptions": ["window membership is asserted with a relative slack of 1e-9 around the 5% borders (floating-point rounding of 0.95*x is not the subject)",
                    "emission is observed at MachineModel._data['instruction_forms'] (what dump() iterates), not in the YAML text"],
}
