"""C13 - text report, machine-readable output and totals agree.

Frontend (constructed without YAML on a stub model exposing the port list) renders kernels built
by the harness; the dependency graph, critical path and LCDs come from the REAL KernelDG on those
kernels.  The text (combined_view / full_analysis / loopcarried_dependencies / warnings) is parsed
back by an independent fixed-width reader and compared with full_analysis_dict.  Structure
(flags per line, options, warnings, port layout, cycle shape, value classes) is chosen by the
solver; each path is a native run (formatting realises symbolic floats, see DESIGN 0.1).
cli_warnings: the real CLI on real files for the arch / length warning logic.
"""
import os
import re
import tempfile

from osaca.frontend import Frontend
from osaca.semantics import INSTR_FLAGS, ArchSemantics

from vp.api import verdict, skip, shard
from vp.symx import pick, native
from vp.synth import DG, NativeParser, PX, iform, class_reg, mk_model

LAYOUTS = [["0", "1"], ["0", "0DV", "1"], ["0", "1", "2D", "3D", "4"]]
VALUES = [0.0, 0.5, 9.99, 9.995, 10.0, 99.99, 100.25]
SHAPES = [
    [((0,), 0), ((0,), 1), ((1,), 2)],            # self loop on line 1, chain 1->2->3
    [((1,), 0), ((0,), 1), ((5,), 2)],            # 2-ring + independent
    [((0, 1), 0), ((0, 1), 1), ((1,), 2)],        # overlapping cycles
    [((4,), 0), ((5,), 1), ((6,), 2)],            # no dependency at all
]
LATS = [0.0, 1.0, 3.0, 12.5]


def _frontend(ports):
    f = Frontend.__new__(Frontend)
    f._filename = "k.s"
    f._arch = "syn"
    f._machine_model = mk_model("x86", ports=list(ports))
    return f


def _cells(fe, text_line, port_len, nports):
    """fixed-width reader for one kernel line of the combined view"""
    pos = 5 + 2            # '{:4d} ' + '| '
    cells = []
    for i in range(nports):
        cells.append(text_line[pos:pos + port_len[i]])
        pos += port_len[i] + 3
    return cells, text_line[pos - 2:]


def _report_concrete(layout, shape, lat_idx, unk, notbound, vals, ignore_unknown, arch_w, length_w, lcd_w, comment_line, unk_kind=0, load_stage=False):
    ports = LAYOUTS[layout]
    n = 3
    kernel = []
    lats = [LATS[i] for i in lat_idx]
    for i, (rs, w) in enumerate(SHAPES[shape]):
        flags = []
        if unk[i]:
            # unk_kind 0: unknown mnemonic (both flags); 1: entry without throughput; 2: entry without latency
            flags += [[INSTR_FLAGS.TP_UNKWN, INSTR_FLAGS.LT_UNKWN], [INSTR_FLAGS.TP_UNKWN], [INSTR_FLAGS.LT_UNKWN]][unk_kind]
        if load_stage and i == 1 and not unk[i]:
            flags.append(INSTR_FLAGS.HAS_LD)       # separately modelled load stage: latency_cp differs from latency
        if notbound[i]:
            flags.append(INSTR_FLAGS.NOT_BOUND)
        pressure = [0.0] * len(ports)
        uops = []
        if not (unk[i] and unk_kind != 2):
            pressure[i % len(ports)] = VALUES[vals[i]]
            pressure[-1] = VALUES[vals[(i + 1) % 3]] / 2
            uops = [[1, [ports[i % len(ports)]]], [1, [ports[-1]]]]
        tp_unknown = INSTR_FLAGS.TP_UNKWN in flags
        k = iform(i + 1, src=[class_reg("x86", c) for c in rs], dst=[class_reg("x86", w)], lat=(0.0 if INSTR_FLAGS.LT_UNKWN in flags else lats[i]),
                  wo=(lats[i] / 4 if (load_stage and i == 1 and not unk[i]) else None),
                  tp=(0.0 if tp_unknown else 1.0), flags=flags, pressure=pressure, uops=uops, line="op%d  %%r%d" % (i, i))
        k._comment_id = None
        kernel.append(k)
    if comment_line:
        c = iform(4, lat=0.0, tp=0.0, pressure=[0.0] * len(ports), mnemonic=None, line="# just a comment")
        c._comment_id = "just a comment"
        c.semantic_operands = {"source": [], "destination": [], "src_dst": []}
        kernel.append(c)
    g = DG(kernel, NativeParser(PX), lcd=True)
    fe = _frontend(ports)
    d = fe.full_analysis_dict(kernel, g, arch_warning=arch_w, length_warning=length_w, lcd_warning=lcd_w)
    text = fe.full_analysis(kernel, g, ignore_unknown=ignore_unknown, arch_warning=arch_w, length_warning=length_w, lcd_warning=lcd_w)
    ok = True
    why = []

    def need(c, msg):
        nonlocal ok
        if not c:
            ok = False
            why.append(msg)

    # ---- warnings
    need(("No micro-architecture was specified" in text) == arch_w, "arch warning")
    need(("You are analyzing a large amount of instruction forms" in text) == length_w, "length warning")
    need(("LCD analysis timed out" in text) == lcd_w, "lcd warning")
    need(("ArchWarning" in d["Warnings"]) == arch_w and ("LengthWarning" in d["Warnings"]) == length_w and ("LCDWarning" in d["Warnings"]) == lcd_w, "dict warnings")
    n_unknown = sum(1 for k in kernel if INSTR_FLAGS.TP_UNKWN in k.flags)
    need(("UnknownInstrWarning" in d["Warnings"]) == (n_unknown > 0), "dict unknown warning")
    missing = re.search(r"The performance data for (\d+) instructions is missing", text)
    expect_missing = n_unknown > 0 and not ignore_unknown
    need((missing is not None) == expect_missing, "missing-data warning presence")
    if missing is not None:
        need(int(missing.group(1)) == n_unknown, "missing-data count")
    # ---- combined view lines
    body = text[text.index("Combined Analysis Report"):text.index("Loop-Carried Dependencies Analysis Report")]
    lines = body.split("\n")
    port_len = fe._get_max_port_len(kernel)
    klines = [l for l in lines if re.match(r"^\s*\d+ \|", l)]
    need(len(klines) == len(kernel), "one report line per kernel line")
    summ = d["Summary"]
    for kl, k, kd in zip(klines, kernel, d["Kernel"]):
        need(int(kl[:4]) == k.line_number == kd["LineNumber"], "line number")
        cells, rest = _cells(fe, kl, port_len, len(ports))
        # pressure cells
        used = set(p for u in k.port_uops for p in u[1])
        for i, cell in enumerate(cells):
            v = kd["PortPressure"][ports[i]]
            if cell.strip() == "":
                need(float(v) == 0.0 and ports[i] not in used, "blank pressure cell for non-zero / used port")
            else:
                try:
                    shown = float(cell)
                    decimals = len(cell.strip().split(".")[1]) if "." in cell else 0
                    need(abs(shown - v) <= 0.5 * 10 ** (-decimals) + 1e-9, "pressure cell value")
                except ValueError:
                    need(False, "unparsable pressure cell %r" % cell)
        parts = kl.split("|")
        cp_cell, lcd_cell, after = parts[-3].strip(), parts[-2].strip(), parts[-1]
        # X mark
        marks = after[:4]
        if k.mnemonic is not None:
            need(("X" in marks) == (INSTR_FLAGS.TP_UNKWN in k.flags), "X mark")
            need(("*" in marks) == (INSTR_FLAGS.NOT_BOUND in k.flags), "* mark")
        # CP cell <-> membership in the critical path returned by the graph
        cp = g.get_critical_path()
        on_cp = any(x is k for x in cp)
        need((cp_cell != "") == on_cp, "CP cell membership")
        if cp_cell != "":
            need(float(cp_cell) == float(kd["LatencyCP"]), "CP cell value")
        # LCD cell <-> membership in one cycle attaining the maximum
        deps = g.get_loopcarried_dependencies()
        if deps:
            best = max(v["latency"] for v in deps.values())
            cands = [set(id(x) for x, _ in v["dependencies"]) for v in deps.values() if v["latency"] == best]
        else:
            cands = []
        k._lcd_marked = lcd_cell != ""
    marked = set(id(k) for k in kernel if getattr(k, "_lcd_marked", False))
    deps = g.get_loopcarried_dependencies()
    if deps:
        need(any(marked == c for c in cands), "LCD column marks one maximal cycle")
        need(summ["LCD"] == best, "summary LCD is the maximum")
    else:
        need(not marked and summ["LCD"] == 0, "no LCD")
    # ---- totals line
    tot = [l for l in lines if re.match(r"^\s{5}\S", l) or (l.startswith("     ") and l.strip() and not l.strip().startswith("|") and "Port pressure" not in l)]
    totals_lines = [l for l in lines if l.startswith("      ") and re.search(r"\d", l) and "|" not in l]
    if expect_missing:
        need(not totals_lines, "totals printed although performance data is missing")
    else:
        need(len(totals_lines) == 1, "exactly one totals line")
        if len(totals_lines) == 1:
            toks = totals_lines[0].split()
            nums = [float(x) for x in toks]
            want_ports = [summ["PortPressure"][p] for p in ports]
            shown_ports = [v for v in want_ports if not (float(v) == 0.0)]
            # the totals line prints every non-blank port total, then CP and LCD
            need(len(nums) >= 2 and nums[-1] == float(summ["LCD"]) and nums[-2] == float(summ["CriticalPath"]), "CP/LCD totals")
            pn = nums[:-2]
            need(len(pn) == len(shown_ports), "number of printed port totals")
            for a, b, tok in zip(pn, shown_ports, toks):
                dec = len(tok.split(".")[1]) if "." in tok else 0
                need(abs(a - b) <= 0.5 * 10 ** (-dec) + 1e-9, "port total value")
    need(list(summ["PortPressure"].values()) == (ArchSemantics.get_throughput_sum(kernel) or kernel[0].port_pressure), "dict totals are the column sums")
    need(summ["CriticalPath"] == sum(x.latency_cp for x in g.get_critical_path()), "dict CP total")
    # ---- LCD list
    lcd_part = text[text.index("Loop-Carried Dependencies Analysis Report"):]
    rows = [l for l in lcd_part.split("\n") if re.match(r"^\s*\d+ \|", l)]
    need(len(rows) == len(deps), "one LCD row per dependency")
    for r in rows:
        parts = r.split("|")
        first, lat, members = int(parts[0]), float(parts[1]), eval(parts[-1])
        match = [v for kdep, v in deps.items() if [x.line_number for x, _ in v["dependencies"]] == members]
        need(len(match) == 1 and abs(match[0]["latency"] - lat) <= 0.05 + 1e-9 and members[0] == first, "LCD row content")
    return ok, True, {"layout": ports, "shape": shape, "lat": lats, "unknown": unk, "ignore_unknown": ignore_unknown, "warnings": [arch_w, length_w, lcd_w], "failed": why[:3]}


def report(layout: int, shape: int, l0: int, l1: int, l2: int, u0: bool, u1: bool, u2: bool, nb: bool, v0: int, v1: int, v2: int,
           ignore_unknown: bool, arch_w: bool, length_w: bool, lcd_w: bool, comment_line: bool, unk_kind: int, load_stage: bool) -> bool:
    """
    pre: 0 <= layout < 3 and 0 <= shape < 4 and 0 <= l0 < 4 and 0 <= l1 < 4 and 0 <= l2 < 4
    pre: 0 <= v0 < 7 and 0 <= v1 < 7 and 0 <= v2 < 7 and 0 <= unk_kind <= 2
    post: _
    """
    if skip(locals()):
        return True
    lo, hi = shard(48)
    if not (lo <= layout * 16 + shape * 4 + l0 < hi):
        return True
    # keep the enumerated family exhaustible: the orthogonal dimensions vary one group at a time
    groups = 0
    if l1 != 1 or l2 != 2:
        groups += 1
    if u0 or u1 or u2 or nb or ignore_unknown:
        groups += 1
    elif unk_kind != 0:
        return True
    if v0 != 1 or v1 != 1 or v2 != 1:
        groups += 1
    if arch_w or length_w or lcd_w or comment_line:
        groups += 1
    if load_stage:
        groups += 1
    if groups > 1:
        return True
    ok, nt, sample = native(_report_concrete, pick(layout, 3), pick(shape, 4), [pick(l0, 4), pick(l1, 4), pick(l2, 4)],
                            [True if u0 else False, True if u1 else False, True if u2 else False], [True if nb else False, False, False],
                            [pick(v0, 7), pick(v1, 7), pick(v2, 7)], True if ignore_unknown else False, True if arch_w else False,
                            True if length_w else False, True if lcd_w else False, True if comment_line else False, pick(unk_kind, 3), True if load_stage else False)
    return verdict(ok, nontrivial=nt, sample=sample)


# ---- CLI: arch / length warnings on real files ------------------------------------------------------

def _cli_concrete(isa, with_arch, nlines, marked, scalar=False):
    from harness._pipeline import run_cli
    body = ("vaddpd %xmm1, %xmm2, %xmm3\n" if isa == "x86" else "fadd v1.2d, v2.2d, v3.2d\n") * nlines
    if scalar and isa == "x86":
        # scalar code without any vector register, with hexadecimal immediates (the ISA guess has little to go on)
        body = "addq $0x10, %rax\nsubq $0x20, %rbx\n" * (nlines // 2) + "incq %rcx\n" * (nlines % 2)
    if marked and scalar:
        # byte markers (ISA specific), with code before and after
        m1 = "movl $111, %ebx\n.byte 100,103,144\n" if isa == "x86" else "mov x1, #111\n.byte 213,3,32,31\n"
        m2 = "movl $222, %ebx\n.byte 100,103,144\n" if isa == "x86" else "mov x1, #222\n.byte 213,3,32,31\n"
        pad = body[:body.index("\n") + 1] * 60
        body = pad + m1 + body[:body.index("\n") + 1] * 3 + m2 + pad
        nlines = 127
    elif marked:
        c = "#" if isa == "x86" else "//"
        body = "%s OSACA-BEGIN\n%s%s OSACA-END\n" % (c, body, c)
    with tempfile.TemporaryDirectory() as td:
        path = os.path.join(td, "k.s")
        with open(path, "w") as f:
            f.write(body)
        # with_arch: 0 none, 1 a non-default model, 2 / 3 the ISA's default model named explicitly (lower / upper case)
        default = "SPR" if isa == "x86" else "V2"
        archs = [None, "zen2" if isa == "x86" else "tx2", default.lower(), default]
        args = ["--ignore-unknown"] + (["--arch", archs[with_arch]] if with_arch else [])
        out = run_cli(path, args)
    ok = ("No micro-architecture was specified" in out) == (not with_arch)
    ok = ok and ("You are analyzing a large amount of instruction forms" in out) == (nlines > 100 and not marked)
    if not with_arch or with_arch >= 2:
        ok = ok and ("Architecture:       %s" % default) in out
    return ok, True, {"isa": isa, "arch_given": archs[with_arch], "lines": nlines, "marked": marked, "scalar_code_byte_markers": scalar}


def cli_warnings(a64: bool, with_arch: int, size: int, marked: bool, scalar: bool) -> bool:
    """
    pre: 0 <= size < 3 and 0 <= with_arch < 4
    post: _
    """
    if skip(locals()):
        return True
    n = [3, 100, 101][pick(size, 3)]
    if with_arch >= 2 and (size != 0 or marked):
        return True          # the explicit default model: small unmarked file only
    if scalar and (with_arch >= 2 or size != 0):
        return True          # scalar code: one size; marked = byte markers inside a 127-line file
    ok, nt, sample = native(_cli_concrete, "aarch64" if a64 else "x86", pick(with_arch, 4), n, True if marked else False, True if scalar else False)
    return verdict(ok, nontrivial=nt, sample=sample)


CELLS = {
    "report": {"fn": report, "bound": "3-instruction kernels over 4 dependency shapes x 3 port layouts (incl. shared-number ports 0/0DV) with one dimension group varied at a time: latencies from {0,1,3,12.5}; unknown mnemonic / missing throughput only / missing latency only / not-bound flags x --ignore-unknown; a line with a separately modelled load stage (CP share differs from its latency); pressure values from {0,.5,9.99,9.995,10,99.99,100.25}; arch/length/LCD warnings and a comment-only line",
               "budget": {"quick": 170, "thorough": 900}, "shards": 16},
    "cli_warnings": {"fn": cli_warnings, "bound": "real CLI on generated files: {x86, AArch64} x {no --arch, a non-default model, the ISA default model named explicitly in lower / upper case} x {3, 100, 101 lines} x {marked, unmarked}", "budget": {"quick": 170, "thorough": 300}, "shards": 4},
}

META = {
    "functions": ["Frontend.full_analysis", "combined_view", "full_analysis_dict", "loopcarried_dependencies", "_get_port_pressure", "_get_lcd_cp_ports", "_get_flag_symbols", "_missing_instruction_error",
                  "_user_warnings_header/_footer", "KernelDG (critical path and LCDs of the rendered kernels)", "osaca.run/inspect (warning flags, default architecture) in cli_warnings"],
    "bounds": "see cells; each path one native rendering, parsed back by an independent fixed-width reader",
    "outside": "formatting of arbitrary floats (format() realises symbolic values); kernels longer than 3 in the structure cell; shipped models x all example kernels",
    "assumptions": ["shown precision = the number of decimals printed in the cell; a value agrees if it is within half a unit of the last printed digit (totals line: one decimal)"],
}
