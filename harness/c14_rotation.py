"""C14 - loop-carried dependencies are invariant under rotation of the loop body.

Metamorphic: the real LCD analysis runs on kernel K and on K rotated by a symbolic offset
(fresh ascending line numbers, as a rotated file would have); the reported cycle sets,
mapped back to instruction identity, and the LCD maximum must coincide.  Register identity
is symbolic through equality patterns; a thorough cell adds AArch64 write-back addressing.
"""
from osaca.parser.memory import MemoryOperand
from osaca.parser.register import RegisterOperand
from osaca.parser.immediate import ImmediateOperand

from vp.api import verdict, skip, in_shard_index
from vp.symx import canon, pick, native, pattern_index
from vp.synth import DG, NativeParser, PX, PA, iform, class_reg, mk_model


def _lcd_set(isa, instrs_spec, order, model=None, parallel_cores=0, gap_after=None):
    """instrs_spec[i] = (src operands, dst operands, src_dst operands, latency); order = identity ids in file order."""
    kernel = []
    for pos, ident in enumerate(order):
        src, dst, sd, lat = instrs_spec[ident]()
        # a blank line in the file leaves a gap in the line numbers (the parser skips it but keeps counting)
        ln = pos + 1 + (1 if (gap_after is not None and pos > gap_after) else 0)
        kernel.append(iform(ln, src=src, dst=dst, src_dst=sd, lat=lat, mnemonic="op%d" % ident))
    parser = NativeParser(PX if isa == "x86" else PA)
    if parallel_cores:
        # multi-process branch (threshold lowered) with stub processes publishing in start order
        from harness._procstub import Env, installed
        g = DG(kernel, parser, model=model)
        g.INSTRUCTION_THRESHOLD = 1
        with installed(Env(parallel_cores)):
            g.loopcarried_deps = g.check_for_loopcarried_dep(kernel, timeout=-1)
    else:
        g = DG(kernel, parser, model=model, lcd=True)
    deps = g.get_loopcarried_dependencies()
    out = set()
    for d in deps.values():
        lnmap = {k.line_number: order[i] for i, k in enumerate(kernel)}
        members = frozenset(lnmap[x.line_number] for x, _ in d["dependencies"])
        if lnmap[d["root"].line_number] not in members:
            members = frozenset(["root-not-a-member"])
        out.add((members, d["latency"]))
    return out, len(deps)


def _rot_concrete(isa, nreads, pat, r, narrow, parallel_cores=0, gap=None):
    n = len(nreads)
    specs = []
    k = 0
    for i in range(n):
        rc = pat[k:k + nreads[i]]
        wc = pat[k + nreads[i]]
        k += nreads[i] + 1

        def mk(rc=rc, wc=wc, i=i):
            return [class_reg(isa, c, narrow=narrow) for c in rc], [class_reg(isa, wc)], [], 1 << i
        specs.append(mk)
    base = list(range(n))
    rotated = base[r:] + base[:r]
    a, na = _lcd_set(isa, specs, base, parallel_cores=parallel_cores)
    b, nb = _lcd_set(isa, specs, rotated, parallel_cores=parallel_cores, gap_after=gap)
    ok = a == b and na == nb
    if ok:
        ma = max([l for _, l in a]) if a else 0
        mb = max([l for _, l in b]) if b else 0
        ok = ma == mb
    return ok, len(a) > 0, {"pattern": list(pat), "rot": r, "cycles": [sorted(m) for m, _ in a]}


def _rot(isa, nreads, flat, rot, narrow, prefix=4):
    pre = canon(flat[:prefix])
    if not in_shard_index(pattern_index(pre)):
        return True
    pat = canon(flat)
    r = pick(rot, len(nreads))
    ok, nontrivial, sample = native(_rot_concrete, isa, list(nreads), list(pat), r, True if narrow else False)
    return verdict(ok, nontrivial=nontrivial, sample=sample)


def rot3_x86(r0: int, w0: int, r1: int, w1: int, r2: int, w2: int, rot: int, gap: int) -> bool:
    """
    pre: 1 <= rot <= 2 and 0 <= gap <= 2
    post: _
    """
    # gap: position after which the rotated file has a blank line (2 = none)
    if skip(locals()):
        return True
    flat = [r0, w0, r1, w1, r2, w2]
    pre = canon(flat[:4])
    if not in_shard_index(pattern_index(pre)):
        return True
    pat = canon(flat)
    r = pick(rot, 3)
    g = pick(gap, 3)
    ok, nontrivial, sample = native(_rot_concrete, "x86", [1, 1, 1], list(pat), r, False, 0, None if g == 2 else g)
    return verdict(ok, nontrivial=nontrivial, sample=sample)


def rot3_parallel(r0: int, w0: int, r1: int, w1: int, r2: int, w2: int, rot: int, cores: int) -> bool:
    """
    pre: 1 <= rot <= 2 and 1 <= cores <= 4
    post: _
    """
    # the multi-process branch of the search (threshold lowered, stub processes) under rotation
    if skip(locals()):
        return True
    flat = [r0, w0, r1, w1, r2, w2]
    pre = canon(flat[:4])
    if not in_shard_index(pattern_index(pre)):
        return True
    pat = canon(flat)
    r = pick(rot, 3)
    c = pick(cores - 1, 4) + 1
    ok, nontrivial, sample = native(_rot_concrete, "x86", [1, 1, 1], list(pat), r, False, c)
    return verdict(ok, nontrivial=nontrivial, sample=sample)


def rot3_a64_narrow(r0: int, w0: int, r1: int, w1: int, r2: int, w2: int, rot: int) -> bool:
    """
    pre: 1 <= rot <= 2
    post: _
    """
    if skip(locals()):
        return True
    return _rot("aarch64", [1, 1, 1], [r0, w0, r1, w1, r2, w2], rot, True)


def rot2_two_reads(a0: int, b0: int, w0: int, a1: int, b1: int, w1: int) -> bool:
    """
    post: _
    """
    if skip(locals()):
        return True
    return _rot("x86", [2, 2], [a0, b0, w0, a1, b1, w1], 1, False)


def rot4_x86(r0: int, w0: int, r1: int, w1: int, r2: int, w2: int, r3: int, w3: int, rot: int) -> bool:
    """
    pre: 1 <= rot <= 3
    post: _
    """
    if skip(locals()):
        return True
    return _rot("x86", [1, 1, 1, 1], [r0, w0, r1, w1, r2, w2, r3, w3], rot, False, prefix=5)


def _wb_concrete(pat, r, post, store, n):
    isa = "aarch64"
    model = mk_model(isa, ports=["0"], p_index_latency=1)

    def i0():
        mem = MemoryOperand(base=class_reg(isa, pat[0]), offset=ImmediateOperand(value=8), pre_indexed=not post,
                            post_indexed={"value": 8} if post else False)
        wb = class_reg(isa, pat[0])
        wb.pre_indexed = mem.pre_indexed
        wb.post_indexed = mem.post_indexed
        data = class_reg(isa, pat[1])
        if store:
            return [data], [mem], [wb], 8
        return [mem], [data], [wb], 8

    def mk(k):
        return lambda: ([class_reg(isa, pat[2 * k])], [class_reg(isa, pat[2 * k + 1])], [], 1 << (k - 1))

    specs = [i0] + [mk(k) for k in range(1, n)]
    base = list(range(n))
    rotated = base[r:] + base[:r]
    a, na = _lcd_set(isa, specs, base, model)
    b, nb = _lcd_set(isa, specs, rotated, model)
    return a == b and na == nb, len(a) > 0, {"pattern": list(pat), "rot": r, "post": post, "store": store,
                                             "cycles": [[sorted(m), l] for m, l in a]}


def rot3_writeback(b0: int, d0: int, r1: int, w1: int, r2: int, w2: int, rot: int, post: bool, store: bool) -> bool:
    """
    pre: 1 <= rot <= 2
    post: _
    """
    if skip(locals()):
        return True
    flat = [b0, d0, r1, w1, r2, w2]
    pre = canon(flat[:4])
    if not in_shard_index(pattern_index(pre)):
        return True
    pat = canon(flat)
    r = pick(rot, 3)
    ok, nontrivial, sample = native(_wb_concrete, list(pat), r, True if post else False, True if store else False, 3)
    return verdict(ok, nontrivial=nontrivial, sample=sample)


def rot4_writeback(b0: int, d0: int, r1: int, w1: int, r2: int, w2: int, r3: int, w3: int, rot: int, post: bool, store: bool) -> bool:
    """
    pre: 1 <= rot <= 3
    post: _
    """
    if skip(locals()):
        return True
    flat = [b0, d0, r1, w1, r2, w2, r3, w3]
    pre = canon(flat[:5])
    if not in_shard_index(pattern_index(pre)):
        return True
    pat = canon(flat)
    r = pick(rot, 4)
    ok, nontrivial, sample = native(_wb_concrete, list(pat), r, True if post else False, True if store else False, 4)
    return verdict(ok, nontrivial=nontrivial, sample=sample)


# ---- shipped example and test kernels (real parser, real models, register-change tracking live) ------

def _example_rot_concrete(ex, r):
    from harness._pipeline import analyze, example_lines, EXAMPLES
    lines = example_lines(ex)
    arch = EXAMPLES[ex][1]
    r = r % len(lines)

    def lcds(ls):
        res = analyze("\n".join(ls) + "\n", arch, whole=True)
        ins = res["instr"]
        # identify instructions by text + occurrence index in program order of the ORIGINAL kernel
        return sorted((tuple(sorted(ins[i][0] for i in mem)), lat) for mem, lat in res["lcd"]), res["summary"]["lcd"]
    return lcds(lines) == lcds(lines[r:] + lines[:r]), True, {"kernel": EXAMPLES[ex][0], "arch": arch, "lines": len(lines), "rotation": r}


def examples_rot(ex: int, r: int) -> bool:
    """
    pre: 0 <= ex < 4 and 1 <= r < 21
    post: _
    """
    # quick: the four smallest kernels (two with store->load dependencies) x every rotation offset
    if skip(locals()):
        return True
    from harness._pipeline import example_lines
    e = pick(ex, 4)
    rr = pick(r, 21)
    if rr >= len(native(example_lines, e)):
        return True
    ok, nt, sample = native(_example_rot_concrete, e, rr)
    return verdict(ok, nontrivial=nt, sample=sample)


def examples_rot_all(ex: int, r: int) -> bool:
    """
    pre: 0 <= ex < 16 and 1 <= r < 43
    post: _
    """
    if skip(locals()):
        return True
    from harness._pipeline import example_lines
    from vp.api import shard
    lo, hi = shard(16)
    if not (lo <= ex < hi):
        return True
    e = pick(ex, 16)
    rr = pick(r, 43)
    if rr >= len(native(example_lines, e)):
        return True
    ok, nt, sample = native(_example_rot_concrete, e, rr)
    return verdict(ok, nontrivial=nt, sample=sample)


CELLS = {
    "rot3_x86": {"fn": rot3_x86, "bound": "n=3, one read + one write per instruction, all 203 coincidence patterns x rotation offsets 1,2 x a blank line (line-number gap) at each position of the rotated file",
                 "budget": {"quick": 150, "thorough": 600}, "shards": 5},
    "rot4_x86": {"fn": rot4_x86, "bound": "n=4, all Bell(8)=4140 patterns x offsets 1..3", "budget": {"quick": 170, "thorough": 900}, "shards": 13},
    "rot3_writeback": {"fn": rot3_writeback, "bound": "n=3, instruction 0 = AArch64 pre/post-indexed load or store (base write-back), all patterns x offsets",
                       "budget": {"quick": 170, "thorough": 900}, "shards": 5},
    "rot3_parallel": {"fn": rot3_parallel, "bound": "n=3, all 203 patterns x offsets x 1-4 stub worker processes: multi-process branch (threshold lowered)", "budget": {"quick": 170, "thorough": 600}, "shards": 5},
    "examples_rot": {"fn": examples_rot, "bound": "4 shipped kernels (sum_reduction zen/tx2, kernel_x86_memdep, kernel_aarch64_memdep: store->load dependencies, register-change tracking) on zen1/zen2/tx2 x every rotation offset; real parser, ISA data and models",
                     "budget": {"quick": 170, "thorough": 600}},
    "examples_rot_all": {"fn": examples_rot_all, "tiers": ("thorough",), "bound": "16 shipped example/test kernels x every rotation offset", "budget": {"thorough": 1800}, "shards": 16},
    "rot3_a64_narrow": {"fn": rot3_a64_narrow, "tiers": ("thorough",), "bound": "n=3 on AArch64 with reads through the w alias", "budget": {"thorough": 600}, "shards": 5},
    "rot2_two_reads": {"fn": rot2_two_reads, "tiers": ("thorough",), "bound": "n=2, two reads + one write per instruction", "budget": {"thorough": 600}, "shards": 5},
    "rot4_writeback": {"fn": rot4_writeback, "tiers": ("thorough",), "bound": "n=4 with write-back instruction, all Bell(8) patterns x offsets x pre/post x load/store", "budget": {"thorough": 2400}, "shards": 52},
}

META = {
    "functions": ["KernelDG.check_for_loopcarried_dep", "KernelDG.create_DG", "KernelDG.find_depending", "KernelDG.is_read", "KernelDG.is_written", "KernelDG.is_memload", "KernelDG.is_memstore"],
    "bounds": "n=3 (quick) / 4 (thorough) instructions, all register coincidence patterns, every rotation offset; latencies 2^i so equal latency implies equal member multiset",
    "outside": "shipped kernels other than the 16 listed in harness/_pipeline.py; models other than zen1/zen2/tx2; n > 4 for generated kernels",
    "assumptions": ["alias predicate native on concrete names per pattern"],
}
