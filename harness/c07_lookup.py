"""C07 - instruction-form lookup is sound and complete for operand kinds.

(b) kind agreement: MachineModel._check_operands and the per-ISA predicates on single
    (entry operand, instruction operand) pairs against a three-valued declarative oracle
    (must match / must not match / not determined by the statement).
(a) search: MachineModel.get_instruction / _match_operands over synthetic models with up to
    3 entries under one mnemonic (duplicates, shadowing, different operand counts), and the
    suffix fall-backs in ArchSemantics.assign_tp_lt.
(v) values: immediates / displacements / scales as symbolic numbers (traced): the verdict
    must not depend on the value.
"""
from osaca.parser.condition import ConditionOperand
from osaca.parser.identifier import IdentifierOperand
from osaca.parser.immediate import ImmediateOperand
from osaca.parser.instruction_form import InstructionForm
from osaca.parser.memory import MemoryOperand
from osaca.parser.prefetch import PrefetchOperand
from osaca.parser.register import RegisterOperand
from osaca.semantics import INSTR_FLAGS

from vp.api import verdict, skip, shard
from vp.symx import pick, native
from vp.synth import mk_model, mk_sem, add_entry

M_X86 = mk_model("x86", ports=["0"])
M_A64 = mk_model("aarch64", ports=["0"])
W = "*"

# ------------------------------------------------------------------ x86 kinds
# entry operand descriptors
X86_ENTRY = []
for n in ("gpr", "xmm", "ymm", "zmm", "mm", "k", W):
    X86_ENTRY.append(("reg", n))
for b in (None, "gpr", W):
    for o in (None, "imd", "id", W):
        for i in (None, "gpr", W):
            for s in (1, 8, W):
                X86_ENTRY.append(("mem", b, o, i, s))
X86_ENTRY += [("imm", "int"), ("id",)]

# instruction operand descriptors
X86_OPND = []
for r, c in (("rax", "gpr"), ("eax", "gpr"), ("ax", "gpr"), ("al", "gpr"), ("r8", "gpr"), ("r10d", "gpr"), ("r15b", "gpr"), ("rsp", "gpr"),
             ("xmm0", "xmm"), ("xmm15", "xmm"), ("ymm1", "ymm"), ("zmm31", "zmm"), ("mm0", "mm"), ("k1", "k")):
    X86_OPND.append(("reg", r, c))
for b in (None, "rax"):
    for o in (None, "imm", "ident"):
        for i in (None, "rsi"):
            for s in ((1,) if i is None else (1, 2, 4, 8)):
                X86_OPND.append(("mem", b, o, i, s))
X86_OPND += [("imm", 5), ("imm", -1), ("id", "lbl"), ("wild",)]


def _x86_entry_obj(d):
    if d[0] == "reg":
        return RegisterOperand(name=d[1])
    if d[0] == "mem":
        return MemoryOperand(base=d[1], offset=d[2], index=d[3], scale=d[4])
    if d[0] == "imm":
        return ImmediateOperand(imd_type=d[1])
    return IdentifierOperand()


def _x86_opnd_obj(d):
    if d[0] == "reg":
        return RegisterOperand(name=d[1])
    if d[0] == "mem":
        off = None if d[2] is None else (ImmediateOperand(value=16) if d[2] == "imm" else IdentifierOperand(name="sym"))
        return MemoryOperand(base=RegisterOperand(name=d[1]) if d[1] else None, offset=off,
                             index=RegisterOperand(name=d[3]) if d[3] else None, scale=d[4])
    if d[0] == "imm":
        return ImmediateOperand(value=d[1])
    if d[0] == "id":
        return IdentifierOperand(name=d[1])
    return {"*": "*"}


def _x86_oracle(e, o):
    """True / False / None (not determined)."""
    if o[0] == "wild":
        return e[0] == "reg"
    if e[0] != o[0]:
        return False
    if e[0] == "reg":
        return e[1] == W or e[1] == o[2]
    if e[0] in ("imm", "id"):
        return True
    _, eb, eo, ei, es = e
    _, ob, oo, oi, osc = o
    base = (eb is None and ob is None) or eb == W or (eb == "gpr" and ob is not None)
    if eo == W:
        off = True
    elif eo is None:
        off = oo is None
    elif eo == "imd":
        off = oo == "imm"
    else:
        off = oo == "ident"
    idx = (ei is None and oi is None) or ei == W or (ei == "gpr" and oi is not None)
    sc = es == W or es == osc or (es != 1 and osc != 1)
    return base and off and idx and sc


def _x86_pair_concrete(ei, oi):
    e, o = X86_ENTRY[ei], X86_OPND[oi]
    got = bool(M_X86._check_operands(_x86_entry_obj(e), _x86_opnd_obj(o)))
    want = _x86_oracle(e, o)
    return want is None or got == want, bool(want), {"entry": list(map(str, e)), "operand": list(map(str, o)), "match": want}


def x86_kinds(ei: int, oi: int) -> bool:
    """
    pre: 0 <= ei < len(X86_ENTRY) and 0 <= oi < len(X86_OPND)
    post: _
    """
    st = skip(locals())
    if st:
        return True
    lo, hi = shard(len(X86_ENTRY))
    if not (lo <= ei < hi):
        return True
    ok, nt, sample = native(_x86_pair_concrete, pick(ei, len(X86_ENTRY)), pick(oi, len(X86_OPND)))
    return verdict(ok, nontrivial=nt, sample=sample)


# ------------------------------------------------------------------ AArch64 kinds
A64_ENTRY = []
for p in ("x", "w", "b", "h", "s", "d", "q", "v", "z", "p", W):
    for sh in (None, "b", "h", "s", "d", W):
        A64_ENTRY.append(("reg", p, sh))
for b in (None, "x", W):
    for o in (None, "imd", W):
        for i in (None, "x", W):
            for s in (1, 8, W):
                for pre in (False, True, W):
                    for post in (False, True, W):
                        A64_ENTRY.append(("mem", b, o, i, s, pre, post))
A64_ENTRY += [("imm", "int"), ("imm", "float"), ("imm", "double"), ("imm", W), ("id",), ("cond", "NE"), ("cond", W), ("prf",)]

A64_OPND = []
for p in ("x", "w", "b", "h", "s", "d", "q", "p"):
    A64_OPND.append(("reg", p, None, None))
for p in ("v", "z"):
    for sh in (None, "b", "h", "s", "d"):
        A64_OPND.append(("reg", p, sh, None if sh is None or p == "z" else {"b": "16", "h": "8", "s": "4", "d": "2"}[sh]))
for b in ("x",):
    for o in (None, "imm"):
        for i in (None, "x"):
            for s in ((1,) if i is None else (1, 2, 4, 8)):
                for mode in ("plain", "pre", "post"):
                    if mode != "plain" and i is not None:
                        continue
                    A64_OPND.append(("mem", b, o, i, s, mode))
A64_OPND += [("imm", "int"), ("imm", "float"), ("imm", "double"), ("id",), ("cond", "NE"), ("cond", "EQ"), ("prf",), ("wild",)]


def _a64_entry_obj(d):
    if d[0] == "reg":
        return RegisterOperand(prefix=d[1], shape=d[2])
    if d[0] == "mem":
        return MemoryOperand(base=d[1], offset=d[2], index=d[3], scale=d[4], pre_indexed=d[5], post_indexed=d[6])
    if d[0] == "imm":
        return ImmediateOperand(imd_type=d[1])
    if d[0] == "id":
        return IdentifierOperand()
    if d[0] == "cond":
        return ConditionOperand(ccode=d[1])
    return PrefetchOperand()


def _a64_opnd_obj(d):
    if d[0] == "reg":
        return RegisterOperand(prefix=d[1], name="3", shape=d[2], lanes=d[3])
    if d[0] == "mem":
        m = MemoryOperand(base=RegisterOperand(prefix="x", name="1"), offset=ImmediateOperand(value=16) if d[2] else None,
                          index=RegisterOperand(prefix="x", name="2") if d[3] else None, scale=d[4])
        if d[5] == "pre":
            m.pre_indexed = True
        if d[5] == "post":
            m.post_indexed = {"value": 16}
        return m
    if d[0] == "imm":
        return ImmediateOperand(imd_type=d[1], value=1.5 if d[1] != "int" else 3)
    if d[0] == "id":
        return IdentifierOperand(name="lbl")
    if d[0] == "cond":
        return ConditionOperand(ccode=d[1])
    if d[0] == "prf":
        return PrefetchOperand(type_id="PLD", target="L1", policy="KEEP")
    return {"*": "*"}


def _a64_oracle(e, o):
    if o[0] == "wild":
        return e[0] == "reg"
    if e[0] != o[0]:
        return False
    if e[0] == "reg":
        _, ep, es = e
        _, op, osh, _ = o
        if ep != W and ep != op:
            return False
        if es is not None and osh is not None:
            return es == W or es == osh
        if es is None and osh is None:
            return True
        return None  # one side declares an element shape, the other does not
    if e[0] == "imm":
        return e[1] == W or e[1] == o[1]
    if e[0] == "cond":
        return e[1] == W or e[1] == o[1]
    if e[0] in ("id", "prf"):
        return True
    _, eb, eo, ei, es, epre, epost = e
    _, ob, oo, oi, osc, mode = o
    base = eb == W or eb == "x"          # operand always has an x base
    off = eo == W or (eo is None and oo is None) or (eo == "imd" and oo == "imm")
    idx = ei == W or (ei is None and oi is None) or (ei == "x" and oi is not None)
    sc = es == W or es == osc or (es != 1 and osc != 1)
    pre = epre == W or epre == (mode == "pre")
    post = epost == W or epost == (mode == "post")
    return base and off and idx and sc and pre and post


def _a64_pair_concrete(ei, oi):
    e, o = A64_ENTRY[ei], A64_OPND[oi]
    got = bool(M_A64._check_operands(_a64_entry_obj(e), _a64_opnd_obj(o)))
    want = _a64_oracle(e, o)
    return want is None or got == want, bool(want), {"entry": list(map(str, e)), "operand": list(map(str, o)), "match": want}


def a64_kinds(ei: int, oi: int) -> bool:
    """
    pre: 0 <= ei < len(A64_ENTRY) and 0 <= oi < len(A64_OPND)
    post: _
    """
    if skip(locals()):
        return True
    lo, hi = shard(len(A64_ENTRY))
    if not (lo <= ei < hi):
        return True
    ok, nt, sample = native(_a64_pair_concrete, pick(ei, len(A64_ENTRY)), pick(oi, len(A64_OPND)))
    return verdict(ok, nontrivial=nt, sample=sample)


# ------------------------------------------------------------------ (v) values symbolic (traced)

def x86_values(imm: int, disp: int, sc: int, esc: int, entry_off: int) -> bool:
    """
    pre: 0 <= sc < 4 and 0 <= esc < 3 and 0 <= entry_off < 3
    post: _
    """
    if skip(locals()):
        return True
    scale = [1, 2, 4, 8][pick(sc, 4)]
    es = [1, 8, W][pick(esc, 3)]
    eo = [None, "imd", W][pick(entry_off, 3)]
    ok = bool(M_X86._check_operands(ImmediateOperand(imd_type="int"), ImmediateOperand(value=imm)))
    mem = MemoryOperand(base=RegisterOperand(name="rax"), offset=ImmediateOperand(value=disp), index=RegisterOperand(name="rsi"), scale=scale)
    got = bool(M_X86._check_operands(MemoryOperand(base="gpr", offset=eo, index="gpr", scale=es), mem))
    want = (eo is not None) and (es == W or es == scale or (es != 1 and scale != 1))
    return verdict(ok and got == want, nontrivial=want, sample=lambda: {"imm": imm, "disp": disp, "scale": scale, "entry_scale": str(es), "entry_off": str(eo)})


def a64_values(imm: int, disp: int, post: int, sc: int, esc: int) -> bool:
    """
    pre: 0 <= sc < 4 and 0 <= esc < 3
    post: _
    """
    if skip(locals()):
        return True
    scale = [1, 2, 4, 8][pick(sc, 4)]
    es = [1, 8, W][pick(esc, 3)]
    ok = bool(M_A64._check_operands(ImmediateOperand(imd_type="int"), ImmediateOperand(imd_type="int", value=imm)))
    mem = MemoryOperand(base=RegisterOperand(prefix="x", name="1"), offset=ImmediateOperand(value=disp), index=RegisterOperand(prefix="x", name="2"), scale=scale)
    got = bool(M_A64._check_operands(MemoryOperand(base="x", offset="imd", index="x", scale=es, pre_indexed=False, post_indexed=False), mem))
    want = es == W or es == scale or (es != 1 and scale != 1)
    pm = MemoryOperand(base=RegisterOperand(prefix="x", name="1"), offset=None, index=None, scale=1, post_indexed={"value": post})
    got2 = bool(M_A64._check_operands(MemoryOperand(base="x", offset=None, index=None, scale=1, pre_indexed=False, post_indexed=True), pm))
    return verdict(ok and got == want and got2, nontrivial=want, sample=lambda: {"imm": imm, "disp": disp, "post": post, "scale": scale, "entry_scale": str(es)})


# ------------------------------------------------------------------ (a) search

KINDS = ["gpr", "xmm", "imm", "mem"]                      # instruction operand kinds
EKINDS = ["gpr", "xmm", "imm", "mem", "anyreg"]           # entry operand kinds (anyreg = register wildcard '*')
SHAPES = [()] + [(a,) for a in range(4)] + [(a, b) for a in range(4) for b in range(4)]      # 21 instruction shapes
ESHAPES = [()] + [(a,) for a in range(5)] + [(a, b) for a in range(5) for b in range(5)]     # 31 entry shapes


def _mk_entry_ops(shape):
    out = []
    for k in shape:
        out.append({"gpr": RegisterOperand(name="gpr"), "xmm": RegisterOperand(name="xmm"), "imm": ImmediateOperand(imd_type="int"),
                    "mem": MemoryOperand(base=W, offset=W, index=W, scale=W), "anyreg": RegisterOperand(name=W)}[EKINDS[k]])
    return out


def _mk_instr_ops(shape):
    out = []
    for k in shape:
        out.append({"gpr": RegisterOperand(name="rbx"), "xmm": RegisterOperand(name="xmm3"), "imm": ImmediateOperand(value=7),
                    "mem": MemoryOperand(base=RegisterOperand(name="rax"), offset=ImmediateOperand(value=8))}[KINDS[k]])
    return out


def _shape_matches(eshape, ishape):
    if len(eshape) != len(ishape):
        return False
    for e, i in zip(eshape, ishape):
        if EKINDS[e] == "anyreg":
            if KINDS[i] not in ("gpr", "xmm"):
                return False
        elif EKINDS[e] != KINDS[i]:
            return False
    return True


def _search_concrete(entry_shapes, instr_shape, upper, name_none, warmup=True):
    model = mk_model("x86", ports=["0"])
    ents = []
    for i, es in enumerate(entry_shapes):
        ents.append(add_entry(model, "OP", _mk_entry_ops(ESHAPES[es]), tp=float(i + 1), lat=float(i + 1), uops=[]))
    add_entry(model, "OTHER", _mk_instr_ops(SHAPES[instr_shape]), tp=99.0, lat=99.0, uops=[])
    name = None if name_none else ("OP" if upper else "op")
    if warmup:
        # earlier lookups on the same model (other instructions of the same mnemonic, later entries
        # first) must not influence which entry a later lookup returns
        for ws in reversed(range(len(SHAPES))):
            if any(_shape_matches(ESHAPES[es], SHAPES[ws]) for es in entry_shapes[1:]):
                model.get_instruction("op", _mk_instr_ops(SHAPES[ws]))
    got = model.get_instruction(name, _mk_instr_ops(SHAPES[instr_shape]))
    want = None
    if not name_none:
        for i, es in enumerate(entry_shapes):
            if _shape_matches(ESHAPES[es], SHAPES[instr_shape]):
                want = ents[i]
                break
    return got is want, want is not None, {"entries": [[EKINDS[k] for k in ESHAPES[e]] for e in entry_shapes], "instr": [KINDS[k] for k in SHAPES[instr_shape]], "found": want is not None}


def search2(e0: int, e1: int, ins: int, upper: bool, name_none: bool) -> bool:
    """
    pre: 0 <= e0 < 31 and 0 <= e1 < 31 and 0 <= ins < 21
    post: _
    """
    if skip(locals()):
        return True
    lo, hi = shard(31)
    if not (lo <= e0 < hi):
        return True
    if (upper or name_none) and e1 != 0:
        return True   # name variants: second entry fixed (the name handling precedes operand matching)
    ok, nt, sample = native(_search_concrete, [pick(e0, 31), pick(e1, 31)], pick(ins, 21), True if upper else False, True if name_none else False)
    return verdict(ok, nontrivial=nt, sample=sample)


def search3(e0: int, e1: int, e2: int, ins: int) -> bool:
    """
    pre: 0 <= e0 < 6 and 0 <= e1 < 6 and 0 <= e2 < 6 and 0 <= ins < 5
    post: _
    """
    # three entries with <= 1 operand: duplicates, shadowing, register wildcard
    if skip(locals()):
        return True
    ok, nt, sample = native(_search_concrete, [pick(e0, 6), pick(e1, 6), pick(e2, 6)], pick(ins, 5), False, False)
    return verdict(ok, nontrivial=nt, sample=sample)


# suffix fall-backs at the caller (assign_tp_lt)
X86_SUFFIX = ["b", "s", "w", "l", "q", "t", "x", "d"]     # last two are not GAS suffixes
A64_MNEMO = ["b.ne", "fadd.s.x", "op"]


def _fallback_concrete(isa, full, stripped, which):
    """full/stripped in {0 absent, 1 present+matching operands, 2 present with other operands}"""
    model = mk_model(isa, ports=["0"])
    if isa == "x86":
        mnemonic = "op" + X86_SUFFIX[which]
        base = "op"
        eligible = X86_SUFFIX[which] in "bswlqt"
        reg, other = RegisterOperand(name="gpr"), RegisterOperand(name="xmm")
        opnd = RegisterOperand(name="rax")
    else:
        mnemonic = A64_MNEMO[which]
        base = mnemonic.split(".")[0]
        eligible = "." in mnemonic
        reg, other = RegisterOperand(prefix="x"), RegisterOperand(prefix="d")
        opnd = RegisterOperand(prefix="x", name="1")
    if full:
        add_entry(model, mnemonic, [reg if full == 1 else other], tp=1.0, lat=1.0, uops=[[1, "0"]])
    if stripped and base != mnemonic:
        add_entry(model, base, [reg if stripped == 1 else other], tp=2.0, lat=2.0, uops=[[2, "0"]])
    sem = mk_sem(model)
    f = InstructionForm(mnemonic=mnemonic, operands=[opnd], line=mnemonic, line_number=1)
    f.flags = []
    sem.assign_src_dst(f)
    sem.assign_tp_lt(f)
    if full == 1:
        want = 1.0
    elif eligible and stripped == 1 and base != mnemonic:
        want = 2.0
    else:
        want = None
    if want is None:
        ok = INSTR_FLAGS.TP_UNKWN in f.flags and f.throughput == 0.0 and sum(f.port_pressure) == 0
    else:
        ok = INSTR_FLAGS.TP_UNKWN not in f.flags and f.throughput == want and f.latency == want
    return ok, want is not None, {"isa": isa, "mnemonic": mnemonic, "full": full, "stripped": stripped, "data_from": want}


def fallback(a64: bool, full: int, stripped: int, which: int) -> bool:
    """
    pre: 0 <= full <= 2 and 0 <= stripped <= 2 and 0 <= which < 8
    post: _
    """
    if skip(locals()):
        return True
    w = pick(which, 8)
    if a64 and w >= 3:
        return True
    ok, nt, sample = native(_fallback_concrete, "aarch64" if a64 else "x86", pick(full, 3), pick(stripped, 3), w)
    return verdict(ok, nontrivial=nt, sample=sample)



# ------------------------------------------------------------------ (s) every entry of every shipped model
# For each form of a shipped model an instruction is synthesised from the form's own operand pattern
# (one concrete register / memory operand / immediate ... per declared kind) and looked up through the
# real get_instruction: it is found, the entry found is the form itself or one listed before it (first
# match in file order), the operand counts agree, and every operand kind of the entry found agrees with
# the instruction's operand under the declarative kind oracle above.  The solver is asked for an entry
# index violating this over the ground table of outcomes (a scan, stated as such).

GPRS = ["rax", "rbx", "rcx", "rdx", "rsi", "rdi"]
X86_CLASSES = ("gpr", "xmm", "ymm", "zmm", "mm", "k", W)
A64_PREFIXES = ("x", "w", "b", "h", "s", "d", "q", "v", "z", "p", W)
A64_SHAPES = (None, "b", "h", "s", "d", "q", W)
LANES = {"b": "16", "h": "8", "s": "4", "d": "2"}


def _x86_instance(o, pos):
    """(instruction operand, its descriptor for _x86_oracle, the entry operand's descriptor)"""
    if isinstance(o, RegisterOperand):
        if o.name not in X86_CLASSES:
            return None
        name = GPRS[pos % 6] if o.name in (W, "gpr") else "%s%d" % (o.name, pos + 1)
        cls = "gpr" if o.name in (W, "gpr") else o.name
        return RegisterOperand(name=name), ("reg", name, cls), ("reg", o.name)
    if isinstance(o, MemoryOperand):
        ident = isinstance(o.offset, IdentifierOperand) or o.offset == "id"
        off = None if o.offset is None else (IdentifierOperand(name="sym") if ident else ImmediateOperand(value=16))
        idx = None if o.index is None else RegisterOperand(name="r9")
        sc = o.scale if isinstance(o.scale, int) else (4 if idx is not None else 1)
        m = MemoryOperand(base=None if o.base is None else RegisterOperand(name="r8"), offset=off, index=idx, scale=sc)
        return m, ("mem", None if o.base is None else "r8", None if off is None else ("ident" if ident else "imm"), None if idx is None else "r9", sc), \
            ("mem", o.base, "id" if ident else o.offset, o.index, o.scale)
    if isinstance(o, ImmediateOperand):
        return ImmediateOperand(imd_type="int", value=1), ("imm", 1), ("imm", o.imd_type)
    if isinstance(o, IdentifierOperand):
        return IdentifierOperand(name="lbl"), ("id", "lbl"), ("id",)
    return None


def _a64_instance(o, pos):
    if isinstance(o, RegisterOperand):
        if o.prefix not in A64_PREFIXES or o.shape not in A64_SHAPES:
            return None
        p, sh = o.prefix, o.shape
        if p == W:
            p = "x" if sh is None else "v"
        if sh == W:
            sh = "d"
        lanes = LANES.get(sh) if (p == "v" and sh) else None
        return RegisterOperand(prefix=p, name=str(pos + 1), shape=sh, lanes=lanes), ("reg", p, sh, lanes), ("reg", o.prefix, o.shape)
    if isinstance(o, MemoryOperand):
        bp = "x" if o.base in (W, None) else o.base
        off = None if o.offset is None else ImmediateOperand(imd_type="int", value=16)
        idx = None
        if o.index is not None:
            ip = "x" if o.index == W else o.index
            idx = RegisterOperand(prefix=ip, name="11", shape=("d" if ip == "z" else None))
        sc = o.scale if isinstance(o.scale, int) else (8 if idx is not None else 1)
        m = MemoryOperand(base=RegisterOperand(prefix=bp, name="10"), offset=off, index=idx, scale=sc)
        m.pre_indexed = True if o.pre_indexed is True else False
        m.post_indexed = {"value": 16} if o.post_indexed is True else False
        mode = "pre" if m.pre_indexed else ("post" if m.post_indexed else "plain")
        return m, ("mem", "x", None if off is None else "imm", None if idx is None else "x", sc, mode), \
            ("mem", "x" if o.base in ("x", "w") else o.base, o.offset, "x" if o.index in ("x", "w", "z") else o.index, o.scale, o.pre_indexed, o.post_indexed)
    if isinstance(o, ImmediateOperand):
        t = "int" if o.imd_type in (W, "int") else o.imd_type
        return ImmediateOperand(imd_type=t, value=(3 if t == "int" else 1.5)), ("imm", t), ("imm", o.imd_type)
    if isinstance(o, IdentifierOperand):
        return IdentifierOperand(name="lbl"), ("id",), ("id",)
    if isinstance(o, ConditionOperand):
        cc = "NE" if o.ccode == W else o.ccode
        return ConditionOperand(ccode=cc), ("cond", cc), ("cond", o.ccode)
    if isinstance(o, PrefetchOperand):
        return PrefetchOperand(type_id="PLD", target="L1", policy="KEEP"), ("prf",), ("prf",)
    return None


def _entry_desc(isa, o):
    r = (_x86_instance if isa == "x86" else _a64_instance)(o, 0)
    return None if r is None else r[2]


def _entry_outcome(m, isa, forms, k):
    """None if fine, else a short reason"""
    f = forms[k]
    inst = [(_x86_instance if isa == "x86" else _a64_instance)(o, i) for i, o in enumerate(f.operands)]
    if any(x is None for x in inst):
        return "operand kind outside the documented vocabulary"
    ops = [x[0] for x in inst]
    try:
        got = m.get_instruction(f.mnemonic, ops)
    except Exception as e:   # noqa
        return "lookup raised %s" % type(e).__name__
    if got is None:
        return "instruction written with the entry's own operand kinds is not found"
    pos = [i for i, x in enumerate(forms) if x is got]
    if not pos or pos[0] > k:
        return "an entry listed later is found, the entry itself does not match"
    if len(got.operands) != len(ops):
        return "entry with another operand count applied"
    oracle = _x86_oracle if isa == "x86" else _a64_oracle
    for go, x in zip(got.operands, inst):
        ed = _entry_desc(isa, go)
        if ed is None or oracle(ed, x[1]) is False:
            return "entry with a different operand kind applied"
    return None


def make_shipped_cell(arch):
    def run(budget):
        import warnings
        import z3
        from vp import api
        from vp.api import kf_state
        from harness.c15_models import load
        m = load(arch)
        isa = m.get_ISA().lower()
        table = []
        with warnings.catch_warnings():
            warnings.simplefilter("ignore")
            for name, forms in m._data["instruction_forms_dict"].items():
                for k in range(len(forms)):
                    table.append((name, k, _entry_outcome(m, isa, forms, k)))
        idx = z3.Int("entry")
        facts = []
        for i, (name, k, why) in enumerate(table):
            if why is not None and kf_state({"arch": arch, "name": name, "why": why, "operands": " ".join(str(getattr(o, "name", None)) for o in m._data["instruction_forms_dict"][name][k].operands)}) == "full":
                facts.append(idx == i)
        s = z3.Solver()
        s.add(idx >= 0, idx < len(table), z3.Or(*facts) if facts else z3.BoolVal(False))
        r = str(s.check())
        if r == "sat":
            i = s.model()[idx].as_long()
            return {"status": "counterexample", "args": [arch, table[i][0], table[i][1]], "kwargs": {}, "paths": len(table), "message": "%s %s #%d: %s" % (arch, table[i][0], table[i][1], table[i][2])}
        if r != "unsat":
            return {"status": "inconclusive", "message": "solver answered " + r, "paths": len(table)}
        api.STATS["reached"] += len(table)
        api.STATS["nontrivial"] += sum(1 for t in table if t[2] is None)
        api.SAMPLES.append({"arch": arch, "forms": len(table), "found_through_own_pattern": sum(1 for t in table if t[2] is None)})
        return {"status": "confirmed", "paths": len(table)}
    return run


def replay_shipped(arch, name, k):
    import warnings
    from harness.c15_models import load
    m = load(arch)
    with warnings.catch_warnings():
        warnings.simplefilter("ignore")
        return _entry_outcome(m, m.get_ISA().lower(), m._data["instruction_forms_dict"][name], k) is None


CELLS = {
    "x86_kinds": {"fn": x86_kinds, "bound": "%d entry operand kinds x %d instruction operand instances (registers of every class/width, memory with every base/offset/index/scale combination, immediates, identifier, memory-substitution wildcard)" % (len(X86_ENTRY), len(X86_OPND)),
                  "budget": {"quick": 170, "thorough": 600}, "shards": 16},
    "a64_kinds": {"fn": a64_kinds, "bound": "%d entry operand kinds x %d instruction operand instances" % (len(A64_ENTRY), len(A64_OPND)),
                  "budget": {"quick": 170, "thorough": 900}, "shards": 32},
    "x86_values": {"fn": x86_values, "bound": "immediate value and displacement unbounded symbolic ints, scale in {1,2,4,8} x entry scale/offset kinds", "budget": {"quick": 120, "thorough": 300}},
    "a64_values": {"fn": a64_values, "bound": "immediate, offset, post-index amount unbounded symbolic ints, scales", "budget": {"quick": 120, "thorough": 300}},
    "search2": {"fn": search2, "bound": "2 entries under one mnemonic, each any of 31 operand-kind tuples (0-2 operands over gpr/xmm/imm/mem/register wildcard) x instruction of 21 tuples x name case x name None; earlier lookups on the same model precede the measured one", "budget": {"quick": 170, "thorough": 600}, "shards": 16},
    "search3": {"fn": search3, "bound": "3 entries (0-1 operand) incl. duplicates/shadowing x instruction", "budget": {"quick": 120, "thorough": 300}},
    "fallback": {"fn": fallback, "bound": "suffix fall-backs in assign_tp_lt: full-name entry {absent, matching, non-matching} x stripped-name entry {same} x 8 x86 suffix letters / 3 AArch64 mnemonics", "budget": {"quick": 120, "thorough": 300}},
}

from harness.c15_models import ARCHS as _ARCHS
for _a in _ARCHS:
    CELLS["shipped_" + _a] = {"kind": "smt", "fn": make_shipped_cell(_a), "replay": replay_shipped,
                              "bound": "every instruction form of %s.yml: the instruction synthesised from the form's own operand pattern is found through get_instruction, by the form itself or one listed before it, with equal operand count and agreeing operand kinds" % _a,
                              "budget": {"quick": 170, "thorough": 300}}

META = {
    "functions": ["MachineModel.get_instruction", "_match_operands", "_check_operands", "_check_x86_operands", "_check_AArch64_operands", "_is_x86_reg_type", "_is_AArch64_reg_type",
                  "_is_x86_mem_type", "_is_AArch64_mem_type", "ArchSemantics.assign_tp_lt (suffix fall-backs)"],
    "bounds": "single operand pairs over the enumerated kind tables; searches over <=3 entries; values symbolic where the verdict must not depend on them",
    "outside": "masking/zeroing (consider_masking=False at the call site); specific-register entries (rax, ymm0-15) of the shipped DBs; AArch64 register pairs where exactly one side declares an element shape (not determined by the statement)",
    "assumptions": ["declarative kind-agreement oracle written from the statement and README conventions (scale 's' = any scale > 1)",
                    "kind cells are a complete case split (each path one native run); value cells are traced with unbounded symbolic ints"],
}
