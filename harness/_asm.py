"""Shared by C09/C10: operand ASTs, renderers and field-by-field comparison for parsed lines.

An operand variant is (text, expected) where expected is a plain tuple describing what has to
be recovered from the text:  ("reg", prefix, name, lanes, shape, index, predication)
("imm", value)  ("fimm", kind)  ("id", name)  ("cond", CODE)  ("mem", base, offset, index, scale, pre, post)
with base/index = (prefix, name) or None and offset = int | ("id", name) | None.
"""
from osaca.parser.condition import ConditionOperand
from osaca.parser.identifier import IdentifierOperand
from osaca.parser.immediate import ImmediateOperand
from osaca.parser.memory import MemoryOperand
from osaca.parser.register import RegisterOperand


def _reg_ok(o, exp):
    _, prefix, name, lanes, shape, index, pred = exp
    if not isinstance(o, RegisterOperand):
        return False
    ok = (o.prefix == prefix) and str(o.name) == name
    ok = ok and (o.lanes is None if lanes is None else str(o.lanes) == lanes)
    ok = ok and (o.shape == shape)
    ok = ok and (o.index is None if index is None else str(o.index) == index)
    ok = ok and (o.predication == pred)
    return ok


def _addr_reg_ok(o, exp):
    if exp is None:
        return o is None
    return isinstance(o, RegisterOperand) and o.prefix == exp[0] and str(o.name) == exp[1]


def operand_ok(o, exp):
    kind = exp[0]
    if kind == "reg":
        return _reg_ok(o, exp)
    if kind == "imm":
        return isinstance(o, ImmediateOperand) and o.value == exp[1] and type(o.value) is int
    if kind == "fimm":
        return isinstance(o, ImmediateOperand) and o.imd_type in ("float", "double") and o.value is not None
    if kind == "id":
        return isinstance(o, IdentifierOperand) and o.name == exp[1]
    if kind == "cond":
        return isinstance(o, ConditionOperand) and o.ccode == exp[1]
    if kind == "mem":
        _, base, off, index, scale, pre, post = exp
        if not isinstance(o, MemoryOperand):
            return False
        ok = _addr_reg_ok(o.base, base) and _addr_reg_ok(o.index, index) and o.scale == scale
        if off is None:
            ok = ok and o.offset is None
        elif isinstance(off, tuple):
            ok = ok and isinstance(o.offset, IdentifierOperand) and o.offset.name == off[1]
        else:
            ok = ok and isinstance(o.offset, ImmediateOperand) and o.offset.value == off and type(o.offset.value) is int
        ok = ok and bool(o.pre_indexed) == pre
        if post is None:
            ok = ok and not o.post_indexed
        else:
            ok = ok and isinstance(o.post_indexed, dict) and o.post_indexed.get("value") == post
        return ok
    return False


def line_ok(form, mnemonic, exps, comment):
    if form.mnemonic != mnemonic or form.label is not None or form.directive is not None:
        return False
    if len(form.operands) != len(exps):
        return False
    if not all(operand_ok(o, e) for o, e in zip(form.operands, exps)):
        return False
    return form.comment == comment


# ------------------------------------------------------------------ x86 AT&T variants

def x86_operands():
    v = []
    for r in ("rax", "eax", "ax", "al", "ah", "rsp", "rbp", "sil", "r8", "r10d", "r11w", "r15b", "xmm0", "xmm15", "ymm1", "ymm31", "zmm9", "zmm31"):
        v.append(("%" + r, ("reg", None, r, None, None, None, None)))
    for txt, val in (("$1", 1), ("$0", 0), ("$-1", -1), ("$10", 10), ("$0x10", 16), ("$-0x10", -16), ("$0xffffffffffffffff", 2 ** 64 - 1), ("$2147483648", 2 ** 31), ("$0xFF", 255), ("$0xaB", 171)):
        v.append((txt, ("imm", val)))
    disp = (("", None), ("8", 8), ("-8", -8), ("0x10", 16), ("-0x20", -32), ("0", 0), ("0x0", 0), ("0xA8", 168))
    for dt, dv in disp:
        for b in (None, "rax"):
            for i in (None, "rcx"):
                for sc in ((None,) if i is None else (None, 1, 2, 4, 8)):
                    if b is None and i is None:
                        continue     # bare displacement is an absolute address: its own variant below
                    inner = ("%" + b if b else "") + ("," + "%" + i if i else "") + ("," + str(sc) if sc else "")
                    v.append(("%s(%s)" % (dt, inner), ("mem", (None, b) if b else None, dv, (None, i) if i else None, sc or 1, False, None)))
    v.append(("sym(%rip)", ("mem", (None, "rip"), ("id", "sym"), None, 1, False, None)))
    v.append((".L7", ("id", ".L7")))
    v.append(("foo", ("id", "foo")))
    return v


X86_LAYOUTS = [  # (leading, mnemonic-operand gap, operand separator, trailing comment text or None)
    ("", " ", ", ", None), ("\t", "\t", ",", None), ("  ", "  ", " ,\t", None), ("", " ", ", ", "cmt here"), ("\t", "\t", " , ", "x"),
]


def render_x86(mnemonic, ops, layout):
    lead, gap, sep, cmt = layout
    s = lead + mnemonic + (gap + sep.join(ops) if ops else "")
    if cmt is not None:
        s += " # " + cmt
    return s


# ------------------------------------------------------------------ AArch64 variants

def a64_registers():
    v = []
    for p, n in (("x", "0"), ("x", "30"), ("w", "1"), ("w", "29"), ("b", "2"), ("h", "3"), ("s", "4"), ("d", "31"), ("q", "5")):
        v.append((p + n, ("reg", p, n, None, None, None, None)))
    v.append(("sp", ("reg", "x", "sp", None, None, None, None)))
    v.append(("xzr", ("reg", "x", "zr", None, None, None, None)))
    v.append(("wzr", ("reg", "w", "zr", None, None, None, None)))
    for lanes, shape in (("2", "d"), ("4", "s"), ("8", "h"), ("16", "b"), ("2", "s")):
        v.append(("v7.%s%s" % (lanes, shape), ("reg", "v", "7", lanes, shape, None, None)))
    v.append(("v3.d[1]", ("reg", "v", "3", None, "d", "1", None)))
    v.append(("v31.s[3]", ("reg", "v", "31", None, "s", "3", None)))
    v.append(("z8.d", ("reg", "z", "8", None, "d", None, None)))
    v.append(("z31.s", ("reg", "z", "31", None, "s", None, None)))
    v.append(("p0/m", ("reg", "p", "0", None, None, None, "m")))
    v.append(("p7/z", ("reg", "p", "7", None, None, None, "z")))
    v.append(("p1.d", ("reg", "p", "1", None, "d", None, None)))
    return v


def a64_immediates():
    v = []
    for txt, val in (("#1", 1), ("1", 1), ("#0", 0), ("#-1", -1), ("#16", 16), ("#0x10", 16), ("0xff", 255), ("#4095", 4095), ("#-256", -256),
                     ("#0xFF", 255), ("#0x1C", 28), ("#-0xAB", -171)):
        v.append((txt, ("imm", val)))
    for txt in ("#1.5", "#0.5", "#2.0e+1", "1.0"):
        v.append((txt, ("fimm", "float")))
    # all 17 condition codes incl. the aliases hs / lo, some in upper or mixed case
    for c in ("eq", "ne", "cs", "hs", "cc", "lo", "mi", "pl", "vs", "vc", "hi", "ls", "ge", "lt", "gt", "le", "al", "HS", "LO", "Ge"):
        v.append((c, ("cond", c.upper())))
    # labels, also ones that start like a condition code or a register name
    for name in (".L3", "loop", "next_block", "almost_done", "x_end", "lo_label", "ne.x"):
        v.append((name, ("id", name)))
    return v


def a64_memory():
    v = []
    for bt, b in (("x1", ("x", "1")), ("sp", ("x", "sp")), ("x29", ("x", "29"))):
        v.append(("[%s]" % bt, ("mem", b, None, None, 1, False, None)))
        for ot, ov in (("#8", 8), ("8", 8), ("#-16", -16), ("#0x20", 32), ("#0", 0), ("#0x1A8", 424)):
            v.append(("[%s, %s]" % (bt, ot), ("mem", b, ov, None, 1, False, None)))
            v.append(("[%s, %s]!" % (bt, ot), ("mem", b, ov, None, 1, True, None)))
        for pt, pv in (("#8", 8), ("#-32", -32), ("#0x40", 64), ("#0x1C", 28)):
            v.append(("[%s], %s" % (bt, pt), ("mem", b, None, None, 1, False, pv)))
        v.append(("[%s, x2]" % bt, ("mem", b, None, ("x", "2"), 1, False, None)))
        for n in (0, 1, 2, 3, 4):
            v.append(("[%s, x2, lsl #%d]" % (bt, n), ("mem", b, None, ("x", "2"), 2 ** n, False, None)))
        v.append(("[%s, w3, sxtw #2]" % bt, ("mem", b, None, ("w", "3"), 4, False, None)))
        v.append(("[%s, w3, uxtw #3]" % bt, ("mem", b, None, ("w", "3"), 8, False, None)))
        v.append(("[%s, w3, sxtw]" % bt, ("mem", b, None, ("w", "3"), 1, False, None)))
    return v


A64_LAYOUTS = [("", " ", ", ", None), ("\t", "\t", ",", None), ("  ", "  ", " ,\t", None), ("", " ", ", ", "cmt here"), ("\t", "\t", " , ", "x")]


def render_a64(mnemonic, ops, layout):
    lead, gap, sep, cmt = layout
    s = lead + mnemonic + (gap + sep.join(ops) if ops else "")
    if cmt is not None:
        s += " // " + cmt
    return s
